(* Properties of the soft-constraint model (Rand/Soft.v): the soft phase never fails, keeps a maximal
   priority-respecting subset; the lowered soft term means what soft_holds says; visit order and guards. *)
From Coq Require Import ZArith List Bool Lia ZifyBool.
From PV Require Import Common.Bits Rand.BV Rand.Expr Rand.Lower Rand.Typing Rand.LowerProofs Rand.Soft.
Import ListNotations.
Open Scope Z_scope.

(* ------------------------------------------------------------------ *)
(* the soft phase                                                      *)
(* ------------------------------------------------------------------ *)
Section Phase.
  Variable T : Type.
  Variable sat : list T -> bool.
  (* satisfiability only shrinks when terms are added (it depends on the set of terms) *)
  Hypothesis sat_mono : forall a b, incl a b -> sat b = true -> sat a = true.

  (* ---- structural facts about greedy (no assumption on sat needed) ---- *)
  Lemma greedy_app hard acc l1 l2 :
    greedy T sat hard acc (l1 ++ l2) = greedy T sat hard (greedy T sat hard acc l1) l2.
  Proof.
    revert acc. induction l1 as [|x t IH]; intros acc; simpl; [reflexivity|].
    destruct (sat (x :: acc ++ hard)); apply IH.
  Qed.

  (* the accumulator is a prefix of the result *)
  Lemma greedy_prefix hard softs : forall acc, exists l, greedy T sat hard acc softs = acc ++ l /\ incl l softs.
  Proof.
    induction softs as [|x t IH]; intros acc; simpl.
    - exists []. rewrite app_nil_r. split; [reflexivity|apply incl_refl].
    - destruct (sat (x :: acc ++ hard)).
      + destruct (IH (acc ++ [x])) as (l & E & Hi). exists (x :: l). rewrite E, <- app_assoc. split; [reflexivity|].
        intros y [<-|Hy]; [left; reflexivity|right; apply Hi, Hy].
      + destruct (IH acc) as (l & E & Hi). exists l. split; [exact E|]. apply incl_tl, Hi.
  Qed.

  Lemma greedy_acc_incl hard softs acc : incl acc (greedy T sat hard acc softs).
  Proof. destruct (greedy_prefix hard softs acc) as (l & -> & _). apply incl_appl, incl_refl. Qed.

  Lemma greedy_incl hard softs acc : incl (greedy T sat hard acc softs) (acc ++ softs).
  Proof.
    destruct (greedy_prefix hard softs acc) as (l & -> & Hi).
    apply incl_app; [apply incl_appl, incl_refl|apply incl_appr, Hi].
  Qed.

  (* ---- facts that use monotonicity ---- *)
  Lemma greedy_sat hard softs : forall acc, sat (acc ++ hard) = true -> sat (greedy T sat hard acc softs ++ hard) = true.
  Proof.
    induction softs as [|x t IH]; intros acc H; simpl; [exact H|].
    destruct (sat (x :: acc ++ hard)) eqn:E; [|apply IH, H].
    apply IH. apply (sat_mono _ (x :: acc ++ hard)); [|exact E].
    intros y Hy. apply in_app_or in Hy. destruct Hy as [Hy|Hy].
    - apply in_app_or in Hy. destruct Hy as [Hy|[<-|[]]]; [right; apply in_or_app; left; exact Hy|left; reflexivity].
    - right. apply in_or_app. right. exact Hy.
  Qed.

  (* when everything fits, the greedy pass keeps everything: the all-at-once test is only a shortcut *)
  Lemma greedy_all hard softs : forall acc, sat (acc ++ softs ++ hard) = true -> greedy T sat hard acc softs = acc ++ softs.
  Proof.
    induction softs as [|x t IH]; intros acc H; simpl; [rewrite app_nil_r; reflexivity|].
    assert (E : sat (x :: acc ++ hard) = true).
    { apply (sat_mono _ (acc ++ (x :: t) ++ hard)); [|exact H].
      intros y [<-|Hy].
      - apply in_or_app. right. left. reflexivity.
      - apply in_app_or in Hy. apply in_or_app. destruct Hy as [Hy|Hy]; [left; exact Hy|].
        right. right. apply in_or_app. right. exact Hy. }
    rewrite E. rewrite IH; rewrite <- app_assoc; [reflexivity|exact H].
  Qed.

  Lemma accepted_greedy hard softs : accepted T sat hard softs = greedy T sat hard [] softs.
  Proof.
    unfold accepted. destruct (sat (softs ++ hard)) eqn:E; [|reflexivity].
    symmetry. apply (greedy_all hard softs []). exact E.
  Qed.

  (* soft constraints never turn a satisfiable hard system into a failure *)
  Lemma soft_never_fatal hard softs : sat hard = true -> sat (accepted T sat hard softs ++ hard) = true.
  Proof.
    intros H. unfold accepted. destruct (sat (softs ++ hard)) eqn:E; [exact E|].
    apply greedy_sat. exact H.
  Qed.

  (* what is accepted is a sub-list of the soft constraints, in their (priority) order *)
  Lemma accepted_incl hard softs : incl (accepted T sat hard softs) softs.
  Proof.
    unfold accepted. destruct (sat (softs ++ hard)); [apply incl_refl|].
    apply (greedy_incl hard softs []).
  Qed.

  (* all soft constraints are kept when they can all be honoured together *)
  Lemma all_at_once_same hard softs : sat (softs ++ hard) = true -> accepted T sat hard softs = softs.
  Proof. intros H. unfold accepted. rewrite H. reflexivity. Qed.

  Lemma greedy_maximal hard softs s : forall acc,
    In s softs -> ~ In s (greedy T sat hard acc softs) -> sat (s :: greedy T sat hard acc softs ++ hard) = false.
  Proof.
    induction softs as [|x t IH]; intros acc Hin Hnot; [destruct Hin|]. simpl in *.
    destruct Hin as [->|Hin].
    - destruct (sat (s :: acc ++ hard)) eqn:E.
      + exfalso. apply Hnot. apply (greedy_acc_incl hard t (acc ++ [s])). apply in_or_app. right. left. reflexivity.
      + destruct (sat (s :: greedy T sat hard acc t ++ hard)) eqn:E2; [|reflexivity].
        rewrite <- E. symmetry. apply (sat_mono _ (s :: greedy T sat hard acc t ++ hard)); [|exact E2].
        intros y [<-|Hy]; [left; reflexivity|right].
        apply in_app_or in Hy. apply in_or_app. destruct Hy as [Hy|Hy]; [left|right; exact Hy].
        apply (greedy_acc_incl hard t acc), Hy.
    - destruct (sat (x :: acc ++ hard)); apply IH; assumption.
  Qed.

  (* maximality: no rejected soft constraint could have been honoured together with the hard constraints and the accepted ones *)
  Lemma soft_maximal hard softs s :
    sat hard = true -> In s softs -> ~ In s (accepted T sat hard softs) -> sat (s :: accepted T sat hard softs ++ hard) = false.
  Proof.
    intros _ Hin Hnot. rewrite accepted_greedy in *. apply greedy_maximal; assumption.
  Qed.

  (* priority: a rejected soft constraint conflicts already with the hard constraints and the accepted constraints of
     higher priority (those before it in the list); the greedy form needs no assumption on sat at all *)
  Lemma soft_priority_wins_greedy hard pre s post :
    ~ In s (greedy T sat hard [] (pre ++ s :: post)) ->
    sat (s :: greedy T sat hard [] pre ++ hard) = false /\
    greedy T sat hard [] (pre ++ s :: post) = greedy T sat hard (greedy T sat hard [] pre) post.
  Proof.
    intros Hnot. rewrite greedy_app in *. simpl in *.
    destruct (sat (s :: greedy T sat hard [] pre ++ hard)) eqn:E; [|split; reflexivity].
    exfalso. apply Hnot. apply (greedy_acc_incl hard post). apply in_or_app. right. left. reflexivity.
  Qed.

  Lemma soft_priority_wins hard pre s post :
    ~ In s (accepted T sat hard (pre ++ s :: post)) ->
    sat (s :: accepted T sat hard pre ++ hard) = false.
  Proof.
    rewrite !accepted_greedy. intros Hnot. apply (soft_priority_wins_greedy hard pre s post Hnot).
  Qed.

  (* the constraints accepted before s are exactly the accepted constraints of the prefix: the decisions on
     higher-priority constraints do not depend on lower-priority ones *)
  Lemma accepted_prefix hard pre post :
    exists l, accepted T sat hard (pre ++ post) = accepted T sat hard pre ++ l /\ incl l post.
  Proof.
    rewrite !accepted_greedy, greedy_app. apply greedy_prefix.
  Qed.
End Phase.

(* ------------------------------------------------------------------ *)
(* visit order / priorities                                            *)
(* ------------------------------------------------------------------ *)
Lemma priorities_nth n i : (i < n)%nat -> nth i (priorities n) 0 = Z.of_nat n + 2 * Z.of_nat i.
Proof.
  intros H. unfold priorities. set (f := fun k => Z.of_nat n + 2 * Z.of_nat k).
  rewrite (nth_indep _ 0 (f O)) by (rewrite map_length, seq_length; exact H).
  rewrite map_nth, seq_nth by exact H. reflexivity.
Qed.

Lemma priorities_increasing n : forall i j, (i < j < n)%nat -> nth i (priorities n) 0 < nth j (priorities n) 0.
Proof. intros i j H. rewrite !priorities_nth by lia. lia. Qed.

Lemma soft_items_app a b : soft_items (a ++ b) = soft_items a ++ soft_items b.
Proof. unfold soft_items. apply flat_map_app. Qed.

(* the local fixpoint of soft_items_s, named *)
Definition sall (f : list expr -> stmt -> list softitem) :=
  fix all (g : list expr) (l : list stmt) : list softitem :=
    match l with [] => [] | x :: t => f g x ++ all g t end.
Lemma sall_flat f g l : sall f g l = flat_map (f g) l.
Proof. induction l as [|x t IH]; simpl; [reflexivity|]. rewrite IH. reflexivity. Qed.

Lemma soft_items_s_if gs c t f :
  soft_items_s gs (SIf c t f) =
  flat_map (soft_items_s (gs ++ [c])) t ++
  match f with Some fl => flat_map (soft_items_s (gs ++ [ENot c])) fl | None => [] end.
Proof.
  change (soft_items_s gs (SIf c t f)) with
    (sall soft_items_s (gs ++ [c]) t ++ match f with Some fl => sall soft_items_s (gs ++ [ENot c]) fl | None => [] end).
  rewrite sall_flat. destruct f; [rewrite sall_flat|]; reflexivity.
Qed.
Lemma soft_items_s_implies gs c b : soft_items_s gs (SImplies c b) = flat_map (soft_items_s (gs ++ [c])) b.
Proof. change (soft_items_s gs (SImplies c b)) with (sall soft_items_s (gs ++ [c]) b). apply sall_flat. Qed.

(* enclosing conditions are prepended to the guards of every nested soft constraint *)
Definition under (g : list expr) (it : softitem) : softitem := mkSoft (g ++ so_guards it) (so_expr it).

Lemma flat_under l : forall g gs,
  Forall (fun s => forall g gs, soft_items_s (g ++ gs) s = map (under g) (soft_items_s gs s)) l ->
  flat_map (soft_items_s (g ++ gs)) l = map (under g) (flat_map (soft_items_s gs) l).
Proof.
  intros g gs H. induction H as [|x t Hx Ht IH]; simpl; [reflexivity|].
  rewrite map_app, Hx, IH. reflexivity.
Qed.

Lemma soft_items_s_under s : forall g gs, soft_items_s (g ++ gs) s = map (under g) (soft_items_s gs s).
Proof.
  induction s as [e|c t f Ht Hf|c b Hb|ids|e] using stmt_ind'; intros g gs; try reflexivity.
  - rewrite !soft_items_s_if, map_app, <- !app_assoc. rewrite (flat_under t) by exact Ht. f_equal.
    destruct f as [fl|]; [|reflexivity]. apply flat_under. exact Hf.
  - rewrite !soft_items_s_implies, <- !app_assoc. apply flat_under. exact Hb.
Qed.

Lemma soft_items_under g l : flat_map (soft_items_s g) l = map (under g) (soft_items l).
Proof.
  unfold soft_items. rewrite <- (app_nil_r g) at 1. apply flat_under.
  apply Forall_forall. intros s _. apply soft_items_s_under.
Qed.

(* a soft constraint nested under if / implies carries exactly the enclosing conditions; the else branch carries the negation *)
Lemma soft_items_if c t f :
  soft_items [SIf c t f] =
  map (fun it => mkSoft (c :: so_guards it) (so_expr it)) (soft_items t) ++
  match f with Some fl => map (fun it => mkSoft (ENot c :: so_guards it) (so_expr it)) (soft_items fl) | None => [] end.
Proof.
  change (soft_items [SIf c t f]) with (soft_items_s [] (SIf c t f) ++ []).
  rewrite app_nil_r, soft_items_s_if. simpl app.
  rewrite soft_items_under. f_equal. destruct f as [fl|]; [|reflexivity]. apply soft_items_under.
Qed.

Lemma soft_items_implies c b :
  soft_items [SImplies c b] = map (fun it => mkSoft (c :: so_guards it) (so_expr it)) (soft_items b).
Proof.
  change (soft_items [SImplies c b]) with (soft_items_s [] (SImplies c b) ++ []).
  rewrite app_nil_r, soft_items_s_implies. simpl app.
  apply soft_items_under.
Qed.

(* ------------------------------------------------------------------ *)
(* meaning of the lowered soft term                                    *)
(* ------------------------------------------------------------------ *)
Definition wt_soft (G : fenv) (it : softitem) : bool :=
  forallb (fun g => wt_cond G g && (built_width G (-1) g =? 1)) (so_guards it) &&
  wt_cond G (so_expr it) && (built_width G (-1) (so_expr it) =? 1).

(* at a context not wider than one bit the builder's width is the expression's own width, and the context does
   not influence the built term *)
Lemma built_width_own G e ctx psg : wt G (-1) psg e = true -> ctx <= 1 -> built_width G ctx e = width_of G e.
Proof.
  intros H Hc. destruct e; simpl in H; bsplit; simpl.
  - lia.
  - reflexivity.
  - destruct (is_rel o); [reflexivity|].
    match goal with H1 : wt _ _ _ e1 = true |- _ => apply wt_width_pos in H1 end. lia.
  - match goal with H1 : wt _ _ _ e = true |- _ => apply wt_width_pos in H1 end.
    replace (Z.max ctx (width_of G e)) with (Z.max (-1) (width_of G e)) by lia. lia.
  - lia.
  - reflexivity.
Qed.

Lemma lower_e_ctx1 G B e psg : wt G (-1) psg e = true -> lower_e G B 1 e = lower_e G B (-1) e.
Proof.
  intros H. destruct e; simpl in H; bsplit; simpl; try reflexivity.
  - f_equal. lia.
  - match goal with H1 : wt _ _ _ e1 = true |- _ => apply wt_width_pos in H1 end.
    replace (Z.max 1 (Z.max (width_of G e1) (width_of G e2))) with (Z.max (-1) (Z.max (width_of G e1) (width_of G e2))) by lia.
    reflexivity.
  - match goal with H1 : wt _ _ _ e = true |- _ => apply wt_width_pos in H1 end.
    replace (Z.max 1 (width_of G e)) with (Z.max (-1) (width_of G e)) by lia. reflexivity.
Qed.

Section SoftTerm.
  Variables (G : fenv) (B : list fbuild) (rho : nat -> Z).
  Hypothesis HF : fields_ok G B rho.

  (* the bit a one-bit condition evaluates to *)
  Definition gv (e : expr) : bool :=
    match bv_eval rho (lower_e G B (-1) e) with Some (_, v) => v =? 1 | None => false end.

  (* a one-bit operand of the guard chain *)
  Definition bit1 (e : expr) : Prop :=
    width_of G e = 1 /\ built_width G (-1) e = 1 /\ built_width G 1 e = 1 /\
    lower_e G B 1 e = lower_e G B (-1) e /\
    bv_eval rho (lower_e G B (-1) e) = Some (1, b2z (gv e)).

  Lemma b2z_gv v : 0 <= v < 2 -> b2z (v =? 1) = v.
  Proof. intros H. destruct (v =? 1) eqn:E; simpl; lia. Qed.

  Lemma bit1_cond e :
    wt_cond G e = true -> built_width G (-1) e = 1 ->
    bit1 e /\ lower_cond G B e = lower_e G B (-1) e /\ forall b, truth G rho e = Some b -> gv e = b.
  Proof.
    intros Hwt Hw. unfold wt_cond in Hwt.
    pose proof (built_width_own G e (-1) false Hwt ltac:(lia)) as E1.
    pose proof (built_width_own G e 1 false Hwt ltac:(lia)) as E2.
    destruct (lower_e_spec G B rho e (-1) false HF Hwt) as (v & He & Hs).
    rewrite Hw in He. destruct (bv_eval_range _ _ _ _ He) as [_ Hr]. change (2 ^ 1) with 2 in Hr.
    assert (Eg : gv e = (v =? 1)) by (unfold gv; rewrite He; reflexivity).
    split; [|split].
    - unfold bit1. repeat split; try lia.
      + apply (lower_e_ctx1 G B e false Hwt).
      + rewrite Eg, b2z_gv by exact Hr. exact He.
    - unfold lower_cond, to_bool. rewrite Hw. reflexivity.
    - intros b Hb. unfold truth in Hb.
      destruct (sem G rho (-1) false e) as [[w' v']|]; [|discriminate].
      destruct (Hs _ _ eq_refl) as [_ ->]. inversion Hb; subst. rewrite Eg. lia.
  Qed.

  Lemma bit1_and l r : bit1 l -> bit1 r -> bit1 (EBin And l r) /\ gv (EBin And l r) = gv l && gv r.
  Proof.
    intros (Hl1 & Hl2 & Hl3 & Hl4 & Hl5) (Hr1 & Hr2 & Hr3 & Hr4 & Hr5).
    assert (Hlow : forall ctx, ctx <= 1 ->
              lower_e G B ctx (EBin And l r) = BOp2 OAnd (lower_e G B (-1) l) (lower_e G B (-1) r)).
    { intros ctx Hc. cbn [lower_e]. rewrite Hl1, Hr1.
      replace (Z.max ctx (Z.max 1 1)) with 1 by lia. rewrite Hl3, Hr3, Hl4, Hr4.
      unfold extend. change (1 <? 1) with false. reflexivity. }
    assert (Hev : bv_eval rho (lower_e G B (-1) (EBin And l r)) = Some (1, b2z (gv l && gv r))).
    { rewrite Hlow by lia. apply bv_eval_and1; assumption. }
    assert (Eg : gv (EBin And l r) = gv l && gv r).
    { unfold gv at 1. rewrite Hev. apply b2z_eqb1. }
    split; [|exact Eg]. unfold bit1. rewrite Eg. repeat split.
    - simpl. lia.
    - simpl. lia.
    - simpl. lia.
    - rewrite !Hlow by lia. reflexivity.
    - exact Hev.
  Qed.

  Definition and_chain (t : list expr) (g : expr) : expr := fold_left (fun acc x => EBin And acc x) t g.

  Lemma bit1_chain t : forall g, bit1 g -> Forall bit1 t ->
    bit1 (and_chain t g) /\ gv (and_chain t g) = gv g && forallb gv t.
  Proof.
    induction t as [|x t IH]; intros g Hg Ht.
    - simpl. rewrite andb_true_r. split; [exact Hg|reflexivity].
    - inversion Ht as [|? ? Hx Ht']; subst.
      destruct (bit1_and g x Hg Hx) as [Hgx Egx].
      destruct (IH _ Hgx Ht') as [Hc Ec].
      change (and_chain (x :: t) g) with (and_chain t (EBin And g x)). split; [exact Hc|].
      rewrite Ec, Egx. simpl. symmetry. apply andb_assoc.
  Qed.

  (* the local fixpoint of soft_holds, named *)
  Definition guards_true_of :=
    fix guards_true (l : list expr) : option bool :=
      match l with
      | [] => Some true
      | g :: t => match truth G rho g with
                  | Some true => guards_true t
                  | Some false => Some false
                  | None => None
                  end
      end.
  Lemma soft_holds_unfold it :
    soft_holds G rho it =
    match guards_true_of (so_guards it) with
    | Some true => truth G rho (so_expr it)
    | Some false => Some true
    | None => None
    end.
  Proof. reflexivity. Qed.

  Lemma guards_true_gv l b :
    (forall g, In g l -> forall b, truth G rho g = Some b -> gv g = b) ->
    guards_true_of l = Some b -> forallb gv l = b.
  Proof.
    induction l as [|g t IH]; intros Hg H; simpl in *.
    - inversion H. reflexivity.
    - destruct (truth G rho g) as [[|]|] eqn:Et; try discriminate.
      + rewrite (Hg g (or_introl eq_refl) _ Et). simpl. apply IH; [|exact H].
        intros g' Hin. apply Hg. right. exact Hin.
      + rewrite (Hg g (or_introl eq_refl) _ Et). inversion H. reflexivity.
  Qed.

  Lemma lower_soft_correct_sec it b :
    wt_soft G it = true -> soft_holds G rho it = Some b ->
    bv_true rho (lower_soft G B it) = Some b.
  Proof.
    intros Hwt Hh. unfold wt_soft in Hwt. bsplit.
    match goal with H1 : forallb _ _ = true |- _ => rename H1 into Hgs end.
    match goal with H1 : wt_cond _ _ = true |- _ => rename H1 into Hwe end.
    match goal with H1 : (_ =? 1) = true |- _ => apply Z.eqb_eq in H1; rename H1 into Hbe end.
    destruct (bit1_cond _ Hwe Hbe) as ((_ & _ & _ & _ & Hev) & _ & Hte).
    assert (Hall : forall g, In g (so_guards it) ->
              bit1 g /\ forall b, truth G rho g = Some b -> gv g = b).
    { intros g Hin. rewrite forallb_forall in Hgs. specialize (Hgs g Hin). bsplit.
      match goal with H1 : (_ =? 1) = true |- _ => apply Z.eqb_eq in H1 end.
      destruct (bit1_cond g) as (? & _ & ?); try assumption. split; assumption. }
    rewrite soft_holds_unfold in Hh. unfold lower_soft.
    destruct (so_guards it) as [|g t] eqn:Egs; simpl guard_expr.
    - simpl in Hh. unfold bv_true. rewrite Hev, b2z_eqb1. f_equal. apply Hte, Hh.
    - fold (and_chain t g).
      assert (Hg : bit1 g) by (apply Hall; left; reflexivity).
      assert (Ht : Forall bit1 t) by (apply Forall_forall; intros x Hx; apply Hall; right; exact Hx).
      destruct (bit1_chain t g Hg Ht) as [(_ & Hcw & _ & _ & Hcev) Ecv].
      assert (Elc : lower_cond G B (and_chain t g) = lower_e G B (-1) (and_chain t g)).
      { unfold lower_cond, to_bool. rewrite Hcw. reflexivity. }
      rewrite Elc. unfold bv_true.
      rewrite (bv_eval_implies1 rho _ _ _ _ Hcev Hev), b2z_eqb1. f_equal.
      change (gv g && forallb gv t) with (forallb gv (g :: t)) in Ecv. rewrite Ecv.
      destruct (guards_true_of (g :: t)) as [[|]|] eqn:Egt; try discriminate.
      + rewrite (guards_true_gv _ _ (fun x Hx => proj2 (Hall x Hx)) Egt). simpl. apply Hte, Hh.
      + rewrite (guards_true_gv _ _ (fun x Hx => proj2 (Hall x Hx)) Egt). simpl. inversion Hh. reflexivity.
  Qed.
End SoftTerm.

Lemma lower_soft_correct G B rho it b :
  fields_ok G B rho -> wt_soft G it = true -> soft_holds G rho it = Some b ->
  bv_true rho (lower_soft G B it) = Some b.
Proof. intros HF. apply lower_soft_correct_sec. exact HF. Qed.
