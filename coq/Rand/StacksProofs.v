(* Proofs about the shared-stacks model of Rand/Stacks.v (C16).

   Everything about run_items / construct is proved by induction on the fuel, for both functions at once and for all
   item lists (item is a nested inductive; no induction on items is used anywhere). *)
From Coq Require Import ZArith List Bool Arith Lia.
From PV Require Import Rand.Stacks.
Import ListNotations.

(* ------------------------------------------------------------------------------------------------------------- *)
(* unfolding equations                                                                                            *)
(* ------------------------------------------------------------------------------------------------------------- *)

Definition probe_step (tag : nat) (r : rs) : rs :=
  let r' := mkR (r_g r) (r_tr r ++ [(tag, view (r_g r))]) (r_fault r) (r_raised r) in
  match r_fault r with
  | Some f => if Nat.eqb f tag then mkR (r_g r') (r_tr r') None true else r'
  | None => r'
  end.

Definition step_item (k : nat) (x : item) (r : rs) : rs :=
  match x with
  | IProbe tag => probe_step tag r
  | IStmt => upd r (dirty (r_g r))
  | IBlock body =>
    let r2 := run_items k body (upd r (push_scope (drain (r_g r)))) in
    upd r2 (pop_scope (r_g r2))
  | INew init blocks => construct k init blocks r
  end.

Definition block_step (k : nat) (acc : rs) (body : list item) : rs :=
  if r_raised acc then acc
  else let a1 := run_items k body (upd acc (push_scope (drain (r_g acc)))) in
       upd a1 (drain (pop_scope (r_g a1))).

Lemma run_items_O : forall l r, run_items 0 l r = r.
Proof. reflexivity. Qed.

Lemma run_items_nil : forall fuel r, run_items fuel [] r = r.
Proof. intros [|k] r; reflexivity. Qed.

Lemma run_items_S : forall k x t r,
  run_items (S k) (x :: t) r = if r_raised r then r else run_items k t (step_item k x r).
Proof. intros k x t r. destruct x; reflexivity. Qed.

Lemma construct_O : forall init blocks r, construct 0 init blocks r = r.
Proof. reflexivity. Qed.

Lemma construct_S : forall k init blocks r,
  construct (S k) init blocks r =
  let r1 := run_items k init (upd r (push_src (r_g r))) in
  if r_raised r1 then upd r1 (pop_src (r_g r1))
  else
    let r3 := fold_left (block_step k) blocks (upd r1 (enter_em (r_g r1))) in
    upd r3 (pop_src (leave_em (r_g r3))).
Proof. reflexivity. Qed.

Lemma fuel_for_S : forall ls, exists k, fuel_for ls = S (S k).
Proof. intros ls. unfold fuel_for. eexists. reflexivity. Qed.

(* ------------------------------------------------------------------------------------------------------------- *)
(* the primitives and the five depths                                                                             *)
(* ------------------------------------------------------------------------------------------------------------- *)

Lemma r_g_upd : forall r g, r_g (upd r g) = g.
Proof. reflexivity. Qed.

Lemma view_drain : forall g, view (drain g) = view g.
Proof. intros g. destruct g. reflexivity. Qed.

Lemma view_dirty : forall g, view (dirty g) = view g.
Proof. intros g. destruct g. reflexivity. Qed.

Lemma view_push_pop_scope : forall g, view (pop_scope (push_scope g)) = view g.
Proof. intros g. destruct g. reflexivity. Qed.

Lemma view_push_pop_src : forall g, view (pop_src (push_src g)) = view g.
Proof. intros g. destruct g. reflexivity. Qed.

Lemma view_enter_leave_em : forall g, view (leave_em (enter_em g)) = view g.
Proof. intros g. destruct g. reflexivity. Qed.

(* the same, when user code (which keeps the depths) ran between the push and the pop *)
Lemma view_pop_scope_after : forall a b, view a = view (push_scope b) -> view (pop_scope a) = view b.
Proof.
  intros a b H. destruct a, b. unfold view in *. simpl in *. inversion H; subst. reflexivity.
Qed.

Lemma view_pop_src_after : forall a b, view a = view (push_src b) -> view (pop_src a) = view b.
Proof.
  intros a b H. destruct a, b. unfold view in *. simpl in *. inversion H; subst. reflexivity.
Qed.

Lemma view_leave_em_after : forall a b, view a = view (enter_em b) -> view (leave_em a) = view b.
Proof.
  intros a b H. destruct a, b. unfold view in *. simpl in *. inversion H; subst. reflexivity.
Qed.

Lemma view_push_scope_cong : forall a b, view a = view b -> view (push_scope a) = view (push_scope b).
Proof.
  intros a b H. destruct a, b. unfold view in *. simpl in *. inversion H; subst. reflexivity.
Qed.

Lemma view_push_src_cong : forall a b, view a = view b -> view (push_src a) = view (push_src b).
Proof.
  intros a b H. destruct a, b. unfold view in *. simpl in *. inversion H; subst. reflexivity.
Qed.

Lemma view_enter_em_cong : forall a b, view a = view b -> view (enter_em a) = view (enter_em b).
Proof.
  intros a b H. destruct a, b. unfold view in *. simpl in *. inversion H; subst. reflexivity.
Qed.

Lemma gstate_eq : forall a b, view a = view b -> g_exprs a = g_exprs b -> a = b.
Proof.
  intros a b H E. destruct a, b. unfold view in *. simpl in *. inversion H; subst. reflexivity.
Qed.

Lemma exprs_pop_scope : forall g, g_exprs (pop_scope g) = false.
Proof. reflexivity. Qed.
Lemma exprs_drain : forall g, g_exprs (drain g) = false.
Proof. reflexivity. Qed.
Lemma exprs_push_src : forall g, g_exprs (push_src g) = g_exprs g.
Proof. reflexivity. Qed.
Lemma exprs_pop_src : forall g, g_exprs (pop_src g) = g_exprs g.
Proof. reflexivity. Qed.
Lemma exprs_enter_em : forall g, g_exprs (enter_em g) = g_exprs g.
Proof. reflexivity. Qed.
Lemma exprs_leave_em : forall g, g_exprs (leave_em g) = g_exprs g.
Proof. reflexivity. Qed.
Lemma exprs_push_scope : forall g, g_exprs (push_scope g) = g_exprs g.
Proof. reflexivity. Qed.

Lemma probe_step_g : forall tag r, r_g (probe_step tag r) = r_g r.
Proof.
  intros tag r. unfold probe_step. destruct (r_fault r) as [f|]; [destruct (Nat.eqb f tag)|]; reflexivity.
Qed.

Lemma probe_step_tr : forall tag r, r_tr (probe_step tag r) = r_tr r ++ [(tag, view (r_g r))].
Proof.
  intros tag r. unfold probe_step. destruct (r_fault r) as [f|]; [destruct (Nat.eqb f tag)|]; reflexivity.
Qed.

(* ------------------------------------------------------------------------------------------------------------- *)
(* 1. user code leaves the five depths as it found them                                                           *)
(* ------------------------------------------------------------------------------------------------------------- *)

Lemma block_step_view : forall k,
  (forall l r, view (r_g (run_items k l r)) = view (r_g r)) ->
  forall acc body, view (r_g (block_step k acc body)) = view (r_g acc).
Proof.
  intros k IHi acc body. unfold block_step.
  destruct (r_raised acc) eqn:Er; [reflexivity|].
  cbv zeta. rewrite r_g_upd. rewrite view_drain.
  apply view_pop_scope_after. rewrite IHi. rewrite r_g_upd.
  apply view_push_scope_cong. apply view_drain.
Qed.

Lemma fold_blocks_view : forall k,
  (forall l r, view (r_g (run_items k l r)) = view (r_g r)) ->
  forall blocks acc, view (r_g (fold_left (block_step k) blocks acc)) = view (r_g acc).
Proof.
  intros k IHi blocks. induction blocks as [|b bs IHb]; intros acc; simpl.
  - reflexivity.
  - rewrite IHb. apply block_step_view. exact IHi.
Qed.

Lemma restore_both : forall fuel,
  (forall l r, view (r_g (run_items fuel l r)) = view (r_g r)) /\
  (forall init blocks r, view (r_g (construct fuel init blocks r)) = view (r_g r)).
Proof.
  induction fuel as [|k [IHi IHc]].
  - split; intros; reflexivity.
  - split.
    + intros l r. destruct l as [|x t].
      * rewrite run_items_nil. reflexivity.
      * rewrite run_items_S. destruct (r_raised r) eqn:Er; [reflexivity|].
        rewrite IHi. destruct x as [tag| |body|init blocks]; unfold step_item.
        -- rewrite probe_step_g. reflexivity.
        -- rewrite r_g_upd. apply view_dirty.
        -- cbv zeta. rewrite r_g_upd. apply view_pop_scope_after.
           rewrite IHi. rewrite r_g_upd. apply view_push_scope_cong. apply view_drain.
        -- apply IHc.
    + intros init blocks r. rewrite construct_S. cbv zeta.
      set (r1 := run_items k init (upd r (push_src (r_g r)))).
      assert (H1 : view (r_g r1) = view (push_src (r_g r))).
      { unfold r1. rewrite IHi. rewrite r_g_upd. reflexivity. }
      destruct (r_raised r1) eqn:Er1.
      * rewrite r_g_upd. apply view_pop_src_after. exact H1.
      * rewrite r_g_upd. apply view_pop_src_after.
        rewrite <- H1. apply view_leave_em_after.
        rewrite (fold_blocks_view k IHi). rewrite r_g_upd. reflexivity.
Qed.

Theorem items_restore : forall fuel l r, view (r_g (run_items fuel l r)) = view (r_g r).
Proof. intros fuel. exact (proj1 (restore_both fuel)). Qed.
Print Assumptions items_restore.

Theorem construct_restore : forall fuel init blocks r, view (r_g (construct fuel init blocks r)) = view (r_g r).
Proof. intros fuel. exact (proj2 (restore_both fuel)). Qed.
Print Assumptions construct_restore.

(* ------------------------------------------------------------------------------------------------------------- *)
(* the expression list after a construction                                                                       *)
(* ------------------------------------------------------------------------------------------------------------- *)

Lemma block_step_exprs_raised_or_clean : forall k acc body,
  r_raised acc = false -> g_exprs (r_g (block_step k acc body)) = false.
Proof.
  intros k acc body H. unfold block_step. rewrite H. reflexivity.
Qed.

Lemma block_step_exprs_false : forall k acc body,
  g_exprs (r_g acc) = false -> g_exprs (r_g (block_step k acc body)) = false.
Proof.
  intros k acc body H. unfold block_step. destruct (r_raised acc); [exact H|reflexivity].
Qed.

Lemma fold_blocks_exprs_false : forall k blocks acc,
  g_exprs (r_g acc) = false -> g_exprs (r_g (fold_left (block_step k) blocks acc)) = false.
Proof.
  intros k blocks. induction blocks as [|b bs IHb]; intros acc H; simpl.
  - exact H.
  - apply IHb. apply block_step_exprs_false. exact H.
Qed.

(* the constraint blocks were reached and there is at least one: every block ends with the expression list cleared *)
Theorem construct_clean : forall k init blocks r,
  r_raised (run_items k init (upd r (push_src (r_g r)))) = false ->
  blocks <> [] ->
  g_exprs (r_g (construct (S k) init blocks r)) = false.
Proof.
  intros k init blocks r Hnr Hne. rewrite construct_S. cbv zeta. rewrite Hnr.
  rewrite r_g_upd. rewrite exprs_pop_src, exprs_leave_em.
  destruct blocks as [|b bs]; [congruence|]. simpl fold_left.
  apply fold_blocks_exprs_false. apply block_step_exprs_raised_or_clean. exact Hnr.
Qed.
Print Assumptions construct_clean.

(* otherwise (the user's __init__ raised, or there is no constraint block) the flag is what __init__ left *)
Theorem construct_exprs_init : forall k init blocks r,
  r_raised (run_items k init (upd r (push_src (r_g r)))) = true \/ blocks = [] ->
  g_exprs (r_g (construct (S k) init blocks r)) = g_exprs (r_g (run_items k init (upd r (push_src (r_g r))))).
Proof.
  intros k init blocks r H. rewrite construct_S. cbv zeta.
  destruct (r_raised (run_items k init (upd r (push_src (r_g r))))) eqn:Er.
  - reflexivity.
  - destruct H as [H|H]; [discriminate|]. subst blocks. reflexivity.
Qed.
Print Assumptions construct_exprs_init.

(* user code that writes no bare expression statement at its own level (with-blocks may contain anything: their exit
   drains; the __init__ of a sub-object must be of the same kind, its constraint blocks may contain anything) *)
Fixpoint quiet_item (x : item) : bool :=
  match x with
  | IProbe _ => true
  | IStmt => false
  | IBlock _ => true
  | INew init _ => forallb quiet_item init
  end.
Definition quiet (l : list item) : bool := forallb quiet_item l.

Lemma quiet_cons : forall x t, quiet (x :: t) = quiet_item x && quiet t.
Proof. reflexivity. Qed.
Lemma quiet_item_new : forall init blocks, quiet_item (INew init blocks) = quiet init.
Proof. reflexivity. Qed.

Lemma quiet_both : forall fuel,
  (forall l r, quiet l = true -> g_exprs (r_g r) = false -> g_exprs (r_g (run_items fuel l r)) = false) /\
  (forall init blocks r, quiet init = true -> g_exprs (r_g r) = false ->
                         g_exprs (r_g (construct fuel init blocks r)) = false).
Proof.
  induction fuel as [|k [IHi IHc]].
  - split; intros; assumption.
  - split.
    + intros l r Hq Hg. destruct l as [|x t].
      * rewrite run_items_nil. exact Hg.
      * rewrite run_items_S. destruct (r_raised r) eqn:Er; [exact Hg|].
        rewrite quiet_cons in Hq. apply andb_prop in Hq. destruct Hq as [Hx Ht].
        apply IHi; [exact Ht|].
        destruct x as [tag| |body|init blocks]; unfold step_item.
        -- rewrite probe_step_g. exact Hg.
        -- discriminate Hx.
        -- reflexivity.
        -- rewrite quiet_item_new in Hx. apply IHc; assumption.
    + intros init blocks r Hq Hg. rewrite construct_S. cbv zeta.
      set (r1 := run_items k init (upd r (push_src (r_g r)))).
      assert (H1 : g_exprs (r_g r1) = false).
      { unfold r1. apply IHi; [exact Hq|]. rewrite r_g_upd. exact Hg. }
      destruct (r_raised r1) eqn:Er1.
      * rewrite r_g_upd. exact H1.
      * rewrite r_g_upd. rewrite exprs_pop_src, exprs_leave_em.
        apply fold_blocks_exprs_false. rewrite r_g_upd. exact H1.
Qed.

Theorem items_quiet : forall fuel l r,
  quiet l = true -> g_exprs (r_g r) = false -> g_exprs (r_g (run_items fuel l r)) = false.
Proof. intros fuel. exact (proj1 (quiet_both fuel)). Qed.
Print Assumptions items_quiet.

Theorem construct_quiet : forall fuel init blocks r,
  quiet init = true -> g_exprs (r_g r) = false -> g_exprs (r_g (construct fuel init blocks r)) = false.
Proof. intros fuel. exact (proj2 (quiet_both fuel)). Qed.
Print Assumptions construct_quiet.

(* callbacks that only probe do not touch the shared state at all *)
Definition only_probes (l : list item) : bool :=
  forallb (fun x => match x with IProbe _ => true | _ => false end) l.

Lemma items_probes_state : forall fuel l r, only_probes l = true -> r_g (run_items fuel l r) = r_g r.
Proof.
  induction fuel as [|k IH]; intros l r H.
  - reflexivity.
  - destruct l as [|x t].
    + reflexivity.
    + rewrite run_items_S. destruct (r_raised r); [reflexivity|].
      unfold only_probes in H. simpl in H. apply andb_prop in H. destruct H as [Hx Ht].
      rewrite IH by exact Ht.
      destruct x; try discriminate Hx. unfold step_item. apply probe_step_g.
Qed.

(* ------------------------------------------------------------------------------------------------------------- *)
(* 2. every API call                                                                                              *)
(* ------------------------------------------------------------------------------------------------------------- *)

Lemma solve_view : forall fuel pre post unsat r, view (r_g (solve fuel pre post unsat r)) = view (r_g r).
Proof.
  intros fuel pre post unsat r. unfold solve.
  destruct (r_raised (run_items fuel pre r)).
  - apply items_restore.
  - destruct unsat.
    + simpl. apply items_restore.
    + rewrite items_restore. apply items_restore.
Qed.

Lemma solve_quiet : forall fuel pre post unsat r,
  quiet pre = true -> quiet post = true -> g_exprs (r_g r) = false ->
  g_exprs (r_g (solve fuel pre post unsat r)) = false.
Proof.
  intros fuel pre post unsat r Hpre Hpost Hg. unfold solve.
  assert (H1 : g_exprs (r_g (run_items fuel pre r)) = false) by (apply items_quiet; assumption).
  destruct (r_raised (run_items fuel pre r)).
  - exact H1.
  - destruct unsat.
    + exact H1.
    + apply items_quiet; assumption.
Qed.

Lemma solve_nil : forall fuel unsat r, r_g (solve fuel [] [] unsat r) = r_g r.
Proof.
  intros fuel unsat r. unfold solve. rewrite !run_items_nil.
  destruct (r_raised r); [reflexivity|]. destruct unsat; reflexivity.
Qed.

Lemma api_restores_fst : forall a g fault, view (fst (fst (run_api a g fault))) = view g.
Proof.
  intros a g fault. unfold run_api. destruct a as [init blocks|pre post unsat|body pre post unsat|body unsat];
    cbv zeta; cbn [fst snd].
  - rewrite construct_restore. reflexivity.
  - rewrite solve_view. reflexivity.
  - cbn [r_g]. generalize (fuel_for [body; pre; post]). intros f.
    rewrite solve_view. cbn [r_g].
    apply view_pop_src_after. apply view_leave_em_after. apply view_pop_scope_after.
    rewrite items_restore. rewrite r_g_upd. reflexivity.
  - cbn [r_g]. generalize (fuel_for [body]). intros f.
    rewrite solve_view. cbn [r_g].
    apply view_leave_em_after. apply view_pop_scope_after.
    rewrite items_restore. rewrite r_g_upd. reflexivity.
Qed.

Theorem api_restores : forall a g fault, let '(g', tr, raised) := run_api a g fault in view g' = view g.
Proof.
  intros a g fault. pose proof (api_restores_fst a g fault) as H.
  destruct (run_api a g fault) as [[g' tr] raised]. exact H.
Qed.
Print Assumptions api_restores.

(* the callbacks / __init__ code whose expression statements could stay behind *)
Definition quiet_api (a : api) : bool :=
  match a with
  | ANew init _ => quiet init
  | ARandomize pre post _ => quiet pre && quiet post
  | AWith _ pre post _ => quiet pre && quiet post
  | AFree _ _ => true
  end.

(* AFree: always empty afterwards, whatever the start state and the body *)
Theorem api_exprs_free : forall body unsat g fault,
  g_exprs (fst (fst (run_api (AFree body unsat) g fault))) = false.
Proof.
  intros body unsat g fault. unfold run_api. cbv zeta. cbn [fst snd r_g].
  rewrite solve_nil. reflexivity.
Qed.
Print Assumptions api_exprs_free.

(* AWith: empty afterwards whatever the start state and the body, provided the callbacks are quiet *)
Theorem api_exprs_with : forall body pre post unsat g fault,
  quiet pre = true -> quiet post = true ->
  g_exprs (fst (fst (run_api (AWith body pre post unsat) g fault))) = false.
Proof.
  intros body pre post unsat g fault Hpre Hpost. unfold run_api. cbv zeta. cbn [fst snd r_g].
  apply solve_quiet; try assumption. reflexivity.
Qed.
Print Assumptions api_exprs_with.

(* all four: an empty expression list stays empty *)
Theorem api_exprs : forall a g fault,
  quiet_api a = true -> g_exprs g = false -> g_exprs (fst (fst (run_api a g fault))) = false.
Proof.
  intros a g fault Hq Hg. destruct a as [init blocks|pre post unsat|body pre post unsat|body unsat].
  - unfold run_api. cbv zeta. cbn [fst snd]. apply construct_quiet; [exact Hq|exact Hg].
  - simpl in Hq. apply andb_prop in Hq. destruct Hq as [Hpre Hpost].
    unfold run_api. cbv zeta. cbn [fst snd]. apply solve_quiet; assumption.
  - simpl in Hq. apply andb_prop in Hq. destruct Hq as [Hpre Hpost].
    apply api_exprs_with; assumption.
  - apply api_exprs_free.
Qed.
Print Assumptions api_exprs.

(* randomize() with callbacks that only probe: the whole shared state is untouched *)
Theorem api_randomize_probes : forall pre post unsat g fault,
  only_probes pre = true -> only_probes post = true ->
  fst (fst (run_api (ARandomize pre post unsat) g fault)) = g.
Proof.
  intros pre post unsat g fault Hpre Hpost. unfold run_api. cbv zeta. cbn [fst snd].
  generalize (fuel_for [pre; post]). intros f. unfold solve.
  destruct (r_raised (run_items f pre _)).
  - rewrite items_probes_state by exact Hpre. reflexivity.
  - destruct unsat.
    + cbn [r_g]. rewrite items_probes_state by exact Hpre. reflexivity.
    + rewrite items_probes_state by exact Hpost. rewrite items_probes_state by exact Hpre. reflexivity.
Qed.
Print Assumptions api_randomize_probes.

(* ------------------------------------------------------------------------------------------------------------- *)
(* 3. histories                                                                                                   *)
(* ------------------------------------------------------------------------------------------------------------- *)

Lemma run_history_cons : forall a f t g,
  run_history ((a, f) :: t) g =
  let '(g1, tr, raised) := run_api a g f in
  let '(g2, rest) := run_history t g1 in
  (g2, (tr, raised) :: rest).
Proof. reflexivity. Qed.

Lemma history_view : forall l g, view (fst (run_history l g)) = view g.
Proof.
  induction l as [|[a f] t IH]; intros g.
  - reflexivity.
  - rewrite run_history_cons. pose proof (api_restores_fst a g f) as Ha.
    destruct (run_api a g f) as [[g1 tr] raised]. simpl in Ha.
    specialize (IH g1). destruct (run_history t g1) as [g2 rest]. simpl in *.
    rewrite IH. exact Ha.
Qed.

Theorem history_depths : forall l, view (fst (run_history l idle)) = view idle.
Proof. intros l. apply history_view. Qed.
Print Assumptions history_depths.

Lemma history_exprs : forall l g,
  forallb (fun c => quiet_api (fst c)) l = true -> g_exprs g = false ->
  g_exprs (fst (run_history l g)) = false.
Proof.
  induction l as [|[a f] t IH]; intros g Hq Hg.
  - exact Hg.
  - cbn [forallb fst] in Hq. apply andb_prop in Hq. destruct Hq as [Ha Ht].
    rewrite run_history_cons. pose proof (api_exprs a g f Ha Hg) as He.
    destruct (run_api a g f) as [[g1 tr] raised]. simpl in He.
    specialize (IH g1 Ht He). destruct (run_history t g1) as [g2 rest]. simpl in *.
    exact IH.
Qed.

(* HYPOTHESIS (needed, see the refutations below): in every call the user's __init__ (ANew) and the pre_/post_randomize
   callbacks (ARandomize, AWith) are `quiet`.  No hypothesis on with-block bodies, constraint blocks, fault points or
   SolveFailure. *)
Theorem history_idle : forall l,
  forallb (fun c => quiet_api (fst c)) l = true ->
  fst (run_history l idle) = idle.
Proof.
  intros l Hq. apply gstate_eq.
  - apply history_depths.
  - apply history_exprs; [exact Hq|reflexivity].
Qed.
Print Assumptions history_idle.

(* without any hypothesis: the only thing that can differ from idle is the expression-list flag *)
Theorem history_idle_iff : forall l,
  fst (run_history l idle) = idle <-> g_exprs (fst (run_history l idle)) = false.
Proof.
  intros l. split.
  - intros H. rewrite H. reflexivity.
  - intros H. apply gstate_eq; [apply history_depths|exact H].
Qed.
Print Assumptions history_idle_iff.

(* the hypothesis cannot be dropped: an expression statement in __init__ / a callback stays in expr_l *)
Example history_idle_needs_quiet_init :
  fst (run_history [(ANew [IStmt] [], None)] idle) = mkG 0 0 0 0 0 true.
Proof. vm_compute. reflexivity. Qed.

Example history_idle_needs_quiet_init_fault :
  fst (run_history [(ANew [IStmt; IProbe 1] [[IProbe 2]], None)] idle) = idle /\
  fst (run_history [(ANew [IStmt; IProbe 1] [[IProbe 2]], Some 1)] idle) = mkG 0 0 0 0 0 true.
Proof. vm_compute. split; reflexivity. Qed.

Example history_idle_needs_quiet_pre :
  fst (run_history [(ARandomize [IStmt] [] false, None)] idle) = mkG 0 0 0 0 0 true.
Proof. vm_compute. reflexivity. Qed.

(* "after AWith the expression list is empty" is false without the hypothesis on the callbacks *)
Example with_exprs_needs_quiet_post :
  g_exprs (fst (fst (run_api (AWith [] [] [IStmt] false) idle None))) = true.
Proof. vm_compute. reflexivity. Qed.

(* ------------------------------------------------------------------------------------------------------------- *)
(* 4. what user code sees                                                                                         *)
(* ------------------------------------------------------------------------------------------------------------- *)

Definition ext (r r' : rs) : Prop := exists s, r_tr r' = r_tr r ++ s.

Lemma ext_refl : forall r, ext r r.
Proof. intros r. exists []. rewrite app_nil_r. reflexivity. Qed.

Lemma ext_trans : forall a b c, ext a b -> ext b c -> ext a c.
Proof.
  intros a b c [s1 H1] [s2 H2]. exists (s1 ++ s2). rewrite H2, H1. rewrite app_assoc. reflexivity.
Qed.

Lemma ext_tr : forall a a' b b', r_tr a = r_tr a' -> r_tr b = r_tr b' -> ext a b -> ext a' b'.
Proof. intros a a' b b' Ha Hb [s H]. exists s. rewrite <- Ha, <- Hb. exact H. Qed.

Lemma block_step_ext : forall k,
  (forall l r, ext r (run_items k l r)) -> forall acc body, ext acc (block_step k acc body).
Proof.
  intros k IHi acc body. unfold block_step. destruct (r_raised acc); [apply ext_refl|].
  cbv zeta.
  eapply ext_tr; [| |apply (IHi body (upd acc (push_scope (drain (r_g acc)))))]; reflexivity.
Qed.

Lemma fold_blocks_ext : forall k,
  (forall l r, ext r (run_items k l r)) ->
  forall blocks acc, ext acc (fold_left (block_step k) blocks acc).
Proof.
  intros k IHi blocks. induction blocks as [|b bs IHb]; intros acc; simpl.
  - apply ext_refl.
  - eapply ext_trans; [apply block_step_ext; exact IHi|apply IHb].
Qed.

Lemma ext_both : forall fuel,
  (forall l r, ext r (run_items fuel l r)) /\
  (forall init blocks r, ext r (construct fuel init blocks r)).
Proof.
  induction fuel as [|k [IHi IHc]].
  - split; intros; apply ext_refl.
  - split.
    + intros l r. destruct l as [|x t].
      * rewrite run_items_nil. apply ext_refl.
      * rewrite run_items_S. destruct (r_raised r); [apply ext_refl|].
        eapply ext_trans; [|apply IHi].
        destruct x as [tag| |body|init blocks]; unfold step_item.
        -- exists [(tag, view (r_g r))]. apply probe_step_tr.
        -- eapply ext_tr; [| |apply (ext_refl r)]; reflexivity.
        -- cbv zeta.
           eapply ext_tr; [| |apply (IHi body (upd r (push_scope (drain (r_g r)))))]; reflexivity.
        -- apply IHc.
    + intros init blocks r. rewrite construct_S. cbv zeta.
      set (r1 := run_items k init (upd r (push_src (r_g r)))).
      assert (H1 : ext r r1).
      { unfold r1. eapply ext_tr; [| |apply (IHi init (upd r (push_src (r_g r))))]; reflexivity. }
      destruct (r_raised r1).
      * eapply ext_tr; [| |exact H1]; reflexivity.
      * eapply ext_trans; [exact H1|].
        eapply ext_tr; [| |apply (fold_blocks_ext k IHi blocks (upd r1 (enter_em (r_g r1))))]; reflexivity.
Qed.

Lemma items_ext : forall fuel l r, ext r (run_items fuel l r).
Proof. intros fuel. exact (proj1 (ext_both fuel)). Qed.

Lemma solve_ext : forall fuel pre post unsat r, ext r (solve fuel pre post unsat r).
Proof.
  intros fuel pre post unsat r. unfold solve.
  destruct (r_raised (run_items fuel pre r)).
  - apply items_ext.
  - destruct unsat.
    + eapply ext_tr; [| |apply (items_ext fuel pre r)]; reflexivity.
    + eapply ext_trans; apply items_ext.
Qed.

(* a probe at the head of a body that starts with an empty trace and the flag down is the first observation *)
Lemma first_probe : forall k tag body r,
  r_tr r = [] -> r_raised r = false ->
  exists s, r_tr (run_items (S k) (IProbe tag :: body) r) = (tag, view (r_g r)) :: s.
Proof.
  intros k tag body r Htr Hr. rewrite run_items_S. rewrite Hr. unfold step_item.
  destruct (items_ext k body (probe_step tag r)) as [s Hs].
  exists s. rewrite Hs. rewrite probe_step_tr. rewrite Htr. reflexivity.
Qed.

Lemma hd_error_ext : forall r r' (x : obs) s, r_tr r = x :: s -> ext r r' -> hd_error (r_tr r') = Some x.
Proof. intros r r' x s H [s' H']. rewrite H', H. reflexivity. Qed.

Theorem with_body_sees : forall body pre post unsat g fault tag,
  hd_error (snd (fst (run_api (AWith (IProbe tag :: body) pre post unsat) g fault))) =
  Some (tag, (S (g_scope g), S (g_srcinfo g), g_foreach g, S (g_emode g), g_raw g)).
Proof.
  intros body pre post unsat g fault tag. unfold run_api. cbv zeta. cbn [fst snd r_tr].
  destruct (fuel_for_S [IProbe tag :: body; pre; post]) as [k Hk]. rewrite Hk.
  set (r0 := upd (mkR g [] fault false) (push_scope (push_src (enter_em (r_g (mkR g [] fault false)))))).
  destruct (first_probe (S k) tag body r0 eq_refl eq_refl) as [s Hs].
  eapply hd_error_ext; [|apply solve_ext]. cbn [r_tr]. exact Hs.
Qed.
Print Assumptions with_body_sees.

Theorem free_body_sees : forall body unsat g fault tag,
  hd_error (snd (fst (run_api (AFree (IProbe tag :: body) unsat) g fault))) =
  Some (tag, (S (g_scope g), g_srcinfo g, g_foreach g, S (g_emode g), g_raw g)).
Proof.
  intros body unsat g fault tag. unfold run_api. cbv zeta. cbn [fst snd r_tr].
  destruct (fuel_for_S [IProbe tag :: body]) as [k Hk]. rewrite Hk.
  set (r0 := upd (mkR g [] fault false) (push_scope (enter_em (r_g (mkR g [] fault false))))).
  destruct (first_probe (S k) tag body r0 eq_refl eq_refl) as [s Hs].
  eapply hd_error_ext; [|apply solve_ext]. cbn [r_tr]. exact Hs.
Qed.
Print Assumptions free_body_sees.

Theorem new_block_sees : forall b bs g fault tag,
  hd_error (snd (fst (run_api (ANew [] ((IProbe tag :: b) :: bs)) g fault))) =
  Some (tag, (S (g_scope g), S (g_srcinfo g), g_foreach g, S (g_emode g), g_raw g)).
Proof.
  intros b bs g fault tag. unfold run_api. cbv zeta. cbn [fst snd].
  destruct (fuel_for_S ([] :: (IProbe tag :: b) :: bs)) as [k Hk]. rewrite Hk.
  rewrite construct_S. cbv zeta. rewrite run_items_nil. cbn [r_raised upd r_g].
  cbn [fold_left]. cbn [r_tr upd].
  set (r2 := mkR (enter_em (push_src g)) [] fault false).
  assert (Hb : exists s, r_tr (block_step (S k) r2 (IProbe tag :: b)) =
                         (tag, (S (g_scope g), S (g_srcinfo g), g_foreach g, S (g_emode g), g_raw g)) :: s).
  { unfold block_step. cbn [r_raised r2]. cbv zeta. cbn [r_tr upd].
    apply (first_probe k tag b (upd r2 (push_scope (drain (r_g r2)))) eq_refl eq_refl). }
  destruct Hb as [s Hs].
  eapply hd_error_ext; [exact Hs|]. apply fold_blocks_ext. intros l r. apply items_ext.
Qed.
Print Assumptions new_block_sees.

(* ------------------------------------------------------------------------------------------------------------- *)
(* 5. after a raise                                                                                               *)
(* ------------------------------------------------------------------------------------------------------------- *)

Theorem fault_stops_user_code : forall fuel l r, r_raised r = true -> run_items fuel l r = r.
Proof.
  intros fuel l r H. destruct fuel as [|k]; [reflexivity|]. destruct l as [|x t]; [reflexivity|].
  rewrite run_items_S. rewrite H. reflexivity.
Qed.
Print Assumptions fault_stops_user_code.

(* ------------------------------------------------------------------------------------------------------------- *)
(* 6. examples (vm_compute)                                                                                       *)
(* ------------------------------------------------------------------------------------------------------------- *)

Definition ex_body : list item := [IStmt; IProbe 1; IBlock [IStmt; IProbe 2; IBlock [IProbe 3]]; IProbe 4].
Definition ex_new : api :=
  ANew [IProbe 1; INew [IProbe 5] [[IProbe 6]]; IProbe 2] [[IStmt; IProbe 3]; [IBlock [IProbe 4]]].

Example ex_with_ok :
  run_api (AWith ex_body [IProbe 10] [IProbe 11] false) idle None =
  (idle,
   [(1, (1, 1, 0, 1, 0)); (2, (2, 1, 0, 1, 0)); (3, (3, 1, 0, 1, 0)); (4, (1, 1, 0, 1, 0));
    (10, (0, 0, 0, 0, 0)); (11, (0, 0, 0, 0, 0))], false).
Proof. vm_compute. reflexivity. Qed.

(* exits_still_run: the fault is inside the innermost nested block; probe 4 of the body does not run, both scopes are
   popped, the callbacks still run at the idle depths, and the call is reported as raised *)
Example exits_still_run :
  run_api (AWith ex_body [IProbe 10] [IProbe 11] false) idle (Some 3) =
  (idle,
   [(1, (1, 1, 0, 1, 0)); (2, (2, 1, 0, 1, 0)); (3, (3, 1, 0, 1, 0));
    (10, (0, 0, 0, 0, 0)); (11, (0, 0, 0, 0, 0))], true).
Proof. vm_compute. reflexivity. Qed.

Example ex_with_unsat :
  run_api (AWith ex_body [IProbe 10] [IProbe 11] true) idle None =
  (idle,
   [(1, (1, 1, 0, 1, 0)); (2, (2, 1, 0, 1, 0)); (3, (3, 1, 0, 1, 0)); (4, (1, 1, 0, 1, 0));
    (10, (0, 0, 0, 0, 0))], true).
Proof. vm_compute. reflexivity. Qed.

Example ex_with_pre_raises :
  run_api (AWith ex_body [IProbe 10] [IProbe 11] false) idle (Some 10) =
  (idle,
   [(1, (1, 1, 0, 1, 0)); (2, (2, 1, 0, 1, 0)); (3, (3, 1, 0, 1, 0)); (4, (1, 1, 0, 1, 0));
    (10, (0, 0, 0, 0, 0))], true).
Proof. vm_compute. reflexivity. Qed.

(* from a state that is not idle (and with expressions pending): depths restored, expr_l drained by the pop *)
Example ex_with_nonidle :
  run_api (AWith ex_body [IProbe 10] [IProbe 11] false) (mkG 2 1 3 1 4 true) (Some 2) =
  (mkG 2 1 3 1 4 false,
   [(1, (3, 2, 3, 2, 4)); (2, (4, 2, 3, 2, 4)); (10, (2, 1, 3, 1, 4)); (11, (2, 1, 3, 1, 4))], true).
Proof. vm_compute. reflexivity. Qed.

Example ex_new_ok :
  run_api ex_new idle None =
  (idle,
   [(1, (0, 1, 0, 0, 0)); (5, (0, 2, 0, 0, 0)); (6, (1, 2, 0, 1, 0)); (2, (0, 1, 0, 0, 0));
    (3, (1, 1, 0, 1, 0)); (4, (2, 1, 0, 1, 0))], false).
Proof. vm_compute. reflexivity. Qed.

Example ex_new_fault4 :
  run_api ex_new idle (Some 4) =
  (idle,
   [(1, (0, 1, 0, 0, 0)); (5, (0, 2, 0, 0, 0)); (6, (1, 2, 0, 1, 0)); (2, (0, 1, 0, 0, 0));
    (3, (1, 1, 0, 1, 0)); (4, (2, 1, 0, 1, 0))], true).
Proof. vm_compute. reflexivity. Qed.

(* the fault is in a constraint block of the sub-object built inside __init__ *)
Example ex_new_fault6 :
  run_api ex_new idle (Some 6) =
  (idle, [(1, (0, 1, 0, 0, 0)); (5, (0, 2, 0, 0, 0)); (6, (1, 2, 0, 1, 0))], true).
Proof. vm_compute. reflexivity. Qed.

Example ex_new_fault5 :
  run_api ex_new idle (Some 5) =
  (idle, [(1, (0, 1, 0, 0, 0)); (5, (0, 2, 0, 0, 0))], true).
Proof. vm_compute. reflexivity. Qed.

Example ex_free_unsat :
  run_api (AFree ex_body true) idle None =
  (idle, [(1, (1, 0, 0, 1, 0)); (2, (2, 0, 0, 1, 0)); (3, (3, 0, 0, 1, 0)); (4, (1, 0, 0, 1, 0))], true).
Proof. vm_compute. reflexivity. Qed.

Example ex_free_fault2 :
  run_api (AFree ex_body false) idle (Some 2) =
  (idle, [(1, (1, 0, 0, 1, 0)); (2, (2, 0, 0, 1, 0))], true).
Proof. vm_compute. reflexivity. Qed.

Definition ex_history : list (api * option nat) :=
  [(ex_new, Some 6);
   (AWith ex_body [IProbe 10] [IProbe 11] false, Some 3);
   (ARandomize [IProbe 10] [IProbe 11] true, None);
   (AFree ex_body false, Some 2)].

Example ex_history_idle :
  run_history ex_history idle =
  (idle,
   [([(1, (0, 1, 0, 0, 0)); (5, (0, 2, 0, 0, 0)); (6, (1, 2, 0, 1, 0))], true);
    ([(1, (1, 1, 0, 1, 0)); (2, (2, 1, 0, 1, 0)); (3, (3, 1, 0, 1, 0)); (10, (0, 0, 0, 0, 0)); (11, (0, 0, 0, 0, 0))],
     true);
    ([(10, (0, 0, 0, 0, 0))], true);
    ([(1, (1, 0, 0, 1, 0)); (2, (2, 0, 0, 1, 0))], true)]).
Proof. vm_compute. reflexivity. Qed.

(* the hypothesis of history_idle holds of this history (non-vacuity) *)
Example ex_history_quiet : forallb (fun c => quiet_api (fst c)) ex_history = true.
Proof. vm_compute. reflexivity. Qed.
