(* Model of methods.distselect / randselect and ConstraintDistScopeModel.next_target_range
   (with the weight list DistConstraintBuilder prepares).  Executable definitions only.
   The pseudo-random draw enters as the argument r (the value returned by randint(1, total)). *)
From Coq Require Import ZArith List Bool.
Import ListNotations.
Open Scope Z_scope.

(* weight_v.sort(key=lambda e: e[0]) : stable insertion sort of (weight, index) pairs *)
Fixpoint winsert (p : Z * nat) (l : list (Z * nat)) : list (Z * nat) :=
  match l with
  | [] => [p]
  | h :: t => if fst p <? fst h then p :: h :: t else h :: winsert p t
  end.
Definition wsort (l : list (Z * nat)) : list (Z * nat) := fold_left (fun acc p => winsert p acc) l [].

Fixpoint index_from (i : nat) (ws : list Z) : list (Z * nat) :=
  match ws with [] => [] | w :: t => (w, i) :: index_from (S i) t end.

(* the subtract-and-test walk; None = fell off the end *)
Fixpoint walk (l : list (Z * nat)) (r : Z) : option nat :=
  match l with
  | [] => None
  | (w, i) :: t => if r - w <=? 0 then Some i else walk t (r - w)
  end.
Definition last_index (l : list (Z * nat)) : option nat :=
  match rev l with [] => None | (_, i) :: _ => Some i end.

Definition total (ws : list Z) : Z := fold_right Z.add 0 ws.

(* distselect(weight_l) when randint(1, total) returns r *)
Definition distselect_at (ws : list Z) (r : Z) : option nat :=
  let l := wsort (index_from 0 ws) in
  match walk l r with Some i => Some i | None => last_index l end.

(* DistConstraintBuilder: non-zero weights only, sorted ascending; next_target_range walks them *)
Definition dist_weight_list (ws : list Z) : list (Z * nat) :=
  wsort (filter (fun p => 0 <? fst p) (index_from 0 ws)).
Definition next_target_at (ws : list Z) (r : Z) : option nat :=
  let l := dist_weight_list ws in
  match walk l r with Some i => Some i | None => last_index l end.

(* number of draws r in [1, n] that select index i *)
Definition draws (n : Z) : list Z := map (fun k => 1 + Z.of_nat k) (seq 0 (Z.to_nat n)).
Definition count_sel (sel : Z -> option nat) (n : Z) (i : nat) : Z :=
  Z.of_nat (length (filter (fun r => match sel r with Some j => Nat.eqb j i | None => false end) (draws n))).
