(* Random state (C09): theorems about the heap model of RandState objects in Rnd.v.
   Generic in the generator (S, draw, mk), in what a call computes (call) and in the default value (dflt). *)
From Coq Require Import ZArith List Bool Arith Lia.
From PV Require Import Rand.Rnd.
Import ListNotations.

(* ---- vocabulary that does not depend on the generator ---- *)
Definition oloc (x : option nat) : list nat := match x with Some l => [l] | None => [] end.

(* x may change the state of object o *)
Definition touches (o : nat) (x : op) : bool :=
  match x with OCall o' _ | OSet o' _ => Nat.eqb o' o | _ => false end.

Definition is_call (o : nat) (x : op) : option nat :=
  match x with OCall o' d => if Nat.eqb o' o then Some d else None | _ => None end.

(* the descriptors of the calls on o in l, in order *)
Fixpoint calls_of (o : nat) (l : list op) : list nat :=
  match l with
  | [] => []
  | x :: t => match is_call o x with Some d => d :: calls_of o t | None => calls_of o t end
  end.

(* the outputs (one per operation, as returned by run) at the positions of the calls on o *)
Fixpoint outs_of (o : nat) (l : list op) (outs : list (list Z)) : list (list Z) :=
  match l, outs with
  | x :: t, out :: outs' =>
    match is_call o x with Some _ => out :: outs_of o t outs' | None => outs_of o t outs' end
  | _, _ => []
  end.

(* l does not store into o: whatever of l touches o is a call on o *)
Definition no_set (o : nat) (l : list op) : Prop :=
  forall x, In x l -> touches o x = true -> exists d, x = OCall o d.

(* n neither touches o nor draws from handle h *)
Definition quiet (o h : nat) (n : list op) : Prop :=
  forall x, In x n -> touches o x = false /\ x <> ODrawH h.

Section RndProofs.
Variable S : Type.
Variable draw : S -> S * Z.
Variable mk : Z -> S.
Variable call : nat -> S -> S * list Z.
Variable dflt : S.

Local Notation state := (st S).
Local Notation hp := (heap S).
Local Notation ob := (objs S).
Local Notation hd := (hands S).
Local Notation hgt := (hget S).
Local Notation hst := (hset S).
Local Notation ens s o := (ensure S draw mk s o dflt).
Local Notation stp := (step S draw mk call dflt).
Local Notation rn := (run S draw mk call dflt).
Local Notation ostate := (obj_state S dflt).
Local Notation hstate := (hand_state S dflt).
Local Notation seqc := (seq_calls S call).
Local Notation WF := (wf S).

Local Notation olocs := (flat_map oloc).

Lemma locs_eq : forall s : state, locs S s = 0 :: olocs (ob s) ++ hd s.
Proof. reflexivity. Qed.

(* ---------------- heap ---------------- *)
Lemma hset_length : forall (h : list S) l g, length (hst h l g) = length h.
Proof. induction h as [|x t IH]; intros [|l] g; simpl; auto. Qed.

Lemma hget_hset_same : forall (h : list S) l g d, l < length h -> hgt (hst h l g) l d = g.
Proof.
  unfold hget. induction h as [|x t IH]; intros [|l] g d Hl; simpl in *; try lia; auto.
  apply IH; lia.
Qed.

Lemma hget_hset_other : forall (h : list S) l l' g d, l <> l' -> hgt (hst h l g) l' d = hgt h l' d.
Proof.
  unfold hget. induction h as [|x t IH]; intros [|l] [|l'] g d Hn; simpl; auto; try congruence; try (apply IH; lia).
Qed.

Lemma hget_app_l : forall (h x : list S) l d, l < length h -> hgt (h ++ x) l d = hgt h l d.
Proof. intros. unfold hget. apply app_nth1; auto. Qed.

Lemma hget_app_new : forall (h : list S) x d, hgt (h ++ [x]) (length h) d = x.
Proof. intros. unfold hget. apply nth_middle. Qed.

(* ---------------- object table ---------------- *)
Lemma oset_length : forall obs o l, length (oset obs o l) = length obs.
Proof. induction obs as [|x t IH]; intros [|o] l; simpl; auto. Qed.

Lemma nth_oset_same : forall obs o l, o < length obs -> nth o (oset obs o l) None = Some l.
Proof.
  induction obs as [|x t IH]; intros [|o] l Hl; simpl in *; try lia; auto.
  apply IH; lia.
Qed.

Lemma nth_oset_other : forall obs o o' l, o <> o' -> nth o' (oset obs o l) None = nth o' obs None.
Proof.
  induction obs as [|x t IH]; intros [|o] [|o'] l Hn; simpl; auto; try congruence; try (apply IH; lia).
Qed.

Lemma oset_oob : forall obs o l, length obs <= o -> oset obs o l = obs.
Proof.
  induction obs as [|x t IH]; intros [|o] l Hl; simpl in *; auto; try lia.
  f_equal. apply IH; lia.
Qed.

Lemma nth_some_lt : forall (obs : list (option nat)) o l, nth o obs None = Some l -> o < length obs.
Proof.
  intros obs o l H. destruct (Nat.lt_ge_cases o (length obs)) as [Hlt|Hge]; auto.
  rewrite nth_overflow in H by lia. discriminate.
Qed.

Lemma in_olocs_nth : forall obs o l, nth o obs None = Some l -> In l (olocs obs).
Proof.
  induction obs as [|x t IH]; intros [|o] l H; simpl in *; try discriminate.
  - subst x. simpl. auto.
  - apply in_or_app. right. eapply IH; eauto.
Qed.

Lemma in_olocs_oset : forall obs o l' l, In l (olocs (oset obs o l')) -> l = l' \/ In l (olocs obs).
Proof.
  induction obs as [|x t IH]; intros [|o] l' l H; simpl in *; auto.
  - destruct H as [H|H]; [left; congruence|]. right. apply in_or_app; auto.
  - apply in_app_or in H. destruct H as [H|H].
    + right. apply in_or_app; auto.
    + apply IH in H. destruct H as [H|H]; auto. right; apply in_or_app; auto.
Qed.

Lemma nodup_olocs_oset : forall obs o l' tl,
  NoDup (olocs obs ++ tl) -> ~ In l' (olocs obs ++ tl) -> NoDup (olocs (oset obs o l') ++ tl).
Proof.
  induction obs as [|x t IH]; intros [|o] l' tl Hnd Hni; simpl in *; auto.
  - rewrite <- app_assoc in Hnd, Hni. constructor.
    + intro Hin. apply Hni. apply in_or_app. right. exact Hin.
    + destruct x as [l|]; simpl in Hnd; auto. inversion Hnd; auto.
  - rewrite <- app_assoc in *. destruct x as [l|]; simpl in *.
    + inversion Hnd as [|? ? Hn1 Hn2]; subst. constructor.
      * intro Hin. apply in_app_or in Hin. destruct Hin as [Hin|Hin].
        -- apply in_olocs_oset in Hin. destruct Hin as [Hin|Hin].
           ++ apply Hni. left. auto.
           ++ apply Hn1. apply in_or_app; auto.
        -- apply Hn1. apply in_or_app; auto.
      * apply IH; auto.
    + apply IH; auto.
Qed.

Lemma olocs_inj : forall obs o1 o2 l,
  NoDup (olocs obs) -> nth o1 obs None = Some l -> nth o2 obs None = Some l -> o1 = o2.
Proof.
  induction obs as [|x t IH]; intros [|o1] [|o2] l Hnd H1 H2; simpl in *; try discriminate; auto.
  - subst x. simpl in Hnd. inversion Hnd as [|? ? Hn1 Hn2]; subst. exfalso. apply Hn1. eapply in_olocs_nth; eauto.
  - subst x. simpl in Hnd. inversion Hnd as [|? ? Hn1 Hn2]; subst. exfalso. apply Hn1. eapply in_olocs_nth; eauto.
  - f_equal. apply (IH o1 o2 l); auto. destruct x; simpl in Hnd; auto. inversion Hnd; auto.
Qed.

Lemma nodup_app_disj : forall (a b : list nat) x, NoDup (a ++ b) -> In x a -> In x b -> False.
Proof.
  induction a as [|y t IH]; intros b x Hnd Ha Hb; simpl in *; auto.
  inversion Hnd as [|? ? Hn1 Hn2]; subst. destruct Ha as [->|Ha].
  - apply Hn1. apply in_or_app; auto.
  - eapply IH; eauto.
Qed.

Lemma nodup_app_l : forall (a b : list nat), NoDup (a ++ b) -> NoDup a.
Proof.
  induction a as [|y t IH]; intros b Hnd; simpl in *; [constructor|].
  inversion Hnd as [|? ? Hn1 Hn2]; subst. constructor.
  - intro Hin. apply Hn1. apply in_or_app; auto.
  - eapply IH; eauto.
Qed.

Lemma nodup_app_r : forall (a b : list nat), NoDup (a ++ b) -> NoDup b.
Proof.
  induction a as [|y t IH]; intros b Hnd; simpl in *; auto.
  inversion Hnd; subst. auto.
Qed.

Lemma nodup_snoc : forall (a : list nat) x, NoDup a -> ~ In x a -> NoDup (a ++ [x]).
Proof.
  induction a as [|y t IH]; intros x Hnd Hni; simpl in *.
  - constructor; [auto | constructor].
  - inversion Hnd as [|? ? Hn1 Hn2]; subst. constructor.
    + intro Hin. apply in_app_or in Hin. destruct Hin as [Hin|[Hin|[]]]; auto.
    + apply IH; auto.
Qed.

(* ---------------- the invariant, by parts ---------------- *)
Lemma wf_intro : forall (h : list S) obs hs,
  NoDup (olocs obs ++ hs) -> (forall l, In l (olocs obs ++ hs) -> 1 <= l < length h) ->
  1 <= length h -> WF (mkSt S h obs hs).
Proof.
  intros h obs hs Hnd Hb Hl. unfold wf. rewrite locs_eq. simpl. split; [|split]; auto.
  - constructor; auto. intro Hin. apply Hb in Hin. lia.
  - intros l [<-|Hin]; [lia|]. apply Hb in Hin. lia.
Qed.

Lemma wf_elim : forall s : state, WF s ->
  NoDup (olocs (ob s) ++ hd s) /\ (forall l, In l (olocs (ob s) ++ hd s) -> 1 <= l < length (hp s)) /\
  1 <= length (hp s).
Proof.
  intros s (Hnd & Hb & Hl). rewrite locs_eq in *. inversion Hnd as [|? ? Hn1 Hn2]; subst.
  split; [|split]; auto. intros l Hin. split.
  - destruct l; [|lia]. contradiction.
  - apply Hb. right. auto.
Qed.

Lemma wf_obj_loc : forall (s : state) o l, WF s -> nth o (ob s) None = Some l -> 1 <= l < length (hp s).
Proof.
  intros s o l Hwf H. apply wf_elim in Hwf. destruct Hwf as (_ & Hb & _).
  apply Hb. apply in_or_app. left. eapply in_olocs_nth; eauto.
Qed.

Lemma wf_hand_loc : forall (s : state) h l, WF s -> nth_error (hd s) h = Some l -> 1 <= l < length (hp s).
Proof.
  intros s h l Hwf H. apply wf_elim in Hwf. destruct Hwf as (_ & Hb & _).
  apply Hb. apply in_or_app. right. eapply nth_error_In; eauto.
Qed.

Lemma wf_obj_inj : forall (s : state) o1 o2 l, WF s ->
  nth o1 (ob s) None = Some l -> nth o2 (ob s) None = Some l -> o1 = o2.
Proof.
  intros s o1 o2 l Hwf H1 H2. apply wf_elim in Hwf. destruct Hwf as (Hnd & _ & _).
  apply nodup_app_l in Hnd. eapply olocs_inj; eauto.
Qed.

Lemma wf_hand_inj : forall (s : state) h1 h2 l, WF s ->
  nth_error (hd s) h1 = Some l -> nth_error (hd s) h2 = Some l -> h1 = h2.
Proof.
  intros s h1 h2 l Hwf H1 H2. apply wf_elim in Hwf. destruct Hwf as (Hnd & _ & _).
  apply nodup_app_r in Hnd. rewrite NoDup_nth_error in Hnd. apply Hnd.
  - apply nth_error_Some. congruence.
  - congruence.
Qed.

Lemma wf_obj_hand : forall (s : state) o h l l', WF s ->
  nth o (ob s) None = Some l -> nth_error (hd s) h = Some l' -> l <> l'.
Proof.
  intros s o h l l' Hwf H1 H2 ->. apply wf_elim in Hwf. destruct Hwf as (Hnd & _ & _).
  eapply nodup_app_disj; eauto.
  - eapply in_olocs_nth; eauto.
  - eapply nth_error_In; eauto.
Qed.

(* three ways a step changes the state *)
Lemma wf_same_len : forall (s : state) h', WF s -> length h' = length (hp s) -> WF (mkSt S h' (ob s) (hd s)).
Proof.
  intros s h' Hwf Hl. apply wf_elim in Hwf. destruct Hwf as (Hnd & Hb & Hl1).
  apply wf_intro; auto; rewrite Hl; auto.
Qed.

Lemma wf_alloc_obj : forall (s : state) h' o, WF s -> length h' = Datatypes.S (length (hp s)) ->
  WF (mkSt S h' (oset (ob s) o (length (hp s))) (hd s)).
Proof.
  intros s h' o Hwf Hl. apply wf_elim in Hwf. destruct Hwf as (Hnd & Hb & Hl1).
  apply wf_intro; try lia.
  - apply nodup_olocs_oset; auto. intro Hin. apply Hb in Hin. lia.
  - intros l Hin. rewrite Hl. apply in_app_or in Hin. destruct Hin as [Hin|Hin].
    + apply in_olocs_oset in Hin. destruct Hin as [->|Hin]; [lia|].
      assert (1 <= l < length (hp s)) by (apply Hb; apply in_or_app; auto). lia.
    + assert (1 <= l < length (hp s)) by (apply Hb; apply in_or_app; auto). lia.
Qed.

Lemma wf_alloc_hand : forall (s : state) h', WF s -> length h' = Datatypes.S (length (hp s)) ->
  WF (mkSt S h' (ob s) (hd s ++ [length (hp s)])).
Proof.
  intros s h' Hwf Hl. apply wf_elim in Hwf. destruct Hwf as (Hnd & Hb & Hl1).
  apply wf_intro; try lia.
  - rewrite app_assoc. apply nodup_snoc; auto. intro Hin. apply Hb in Hin. lia.
  - intros l Hin. rewrite Hl. rewrite app_assoc in Hin. apply in_app_or in Hin.
    destruct Hin as [Hin|[<-|[]]]; [|lia]. apply Hb in Hin. lia.
Qed.

Lemma state_eta : forall s : state, s = mkSt S (hp s) (ob s) (hd s).
Proof. destruct s; reflexivity. Qed.

(* ---------------- 1. the invariant holds initially and is preserved ---------------- *)
Lemma olocs_repeat_none : forall n, olocs (repeat None n) = [].
Proof. induction n; simpl; auto. Qed.

Theorem wf_init : forall g0 n, WF (init S g0 n).
Proof.
  intros g0 n. unfold init. apply wf_intro; simpl; auto.
  - rewrite olocs_repeat_none. constructor.
  - intros l. rewrite olocs_repeat_none. simpl. intros [].
Qed.

(* ensure, by cases *)
Lemma ensure_some : forall (s : state) o l, nth o (ob s) None = Some l -> ens s o = (s, l).
Proof. intros s o l H. unfold ensure. rewrite H. reflexivity. Qed.

Lemma ensure_none : forall (s : state) o, nth o (ob s) None = None ->
  ens s o = (mkSt S (hst (hp s) 0 (fst (draw (hgt (hp s) 0 dflt))) ++ [mk (snd (draw (hgt (hp s) 0 dflt)))])
                    (oset (ob s) o (length (hp s))) (hd s), length (hp s)).
Proof. intros s o H. unfold ensure. rewrite H. destruct (draw _); reflexivity. Qed.

Lemma ensure_cases : forall (s : state) o,
  (exists l, nth o (ob s) None = Some l /\ ens s o = (s, l)) \/
  (nth o (ob s) None = None /\
   ens s o = (mkSt S (hst (hp s) 0 (fst (draw (hgt (hp s) 0 dflt))) ++ [mk (snd (draw (hgt (hp s) 0 dflt)))])
                     (oset (ob s) o (length (hp s))) (hd s), length (hp s))).
Proof.
  intros s o. destruct (nth o (ob s) None) as [l|] eqn:E.
  - left. exists l. split; auto. apply ensure_some; auto.
  - right. split; auto. apply ensure_none; auto.
Qed.

Lemma ensure_wf : forall (s : state) o, WF s -> WF (fst (ens s o)).
Proof.
  intros s o Hwf. destruct (ensure_cases s o) as [(l & _ & E)|(_ & E)]; rewrite E; simpl; auto.
  apply wf_alloc_obj; auto. rewrite app_length, hset_length. simpl. lia.
Qed.

Lemma ensure_hands : forall (s : state) o, hd (fst (ens s o)) = hd s.
Proof. intros s o. destruct (ensure_cases s o) as [(l & _ & E)|(_ & E)]; rewrite E; reflexivity. Qed.

Lemma ensure_objs_length : forall (s : state) o, length (ob (fst (ens s o))) = length (ob s).
Proof.
  intros s o. destruct (ensure_cases s o) as [(l & _ & E)|(_ & E)]; rewrite E; simpl; auto.
  apply oset_length.
Qed.

Lemma ensure_heap_length : forall (s : state) o, length (hp s) <= length (hp (fst (ens s o))).
Proof.
  intros s o. destruct (ensure_cases s o) as [(l & _ & E)|(_ & E)]; rewrite E; simpl; auto.
  rewrite app_length, hset_length. lia.
Qed.

Lemma ensure_loc : forall (s : state) o, WF s -> 1 <= snd (ens s o) < length (hp (fst (ens s o))).
Proof.
  intros s o Hwf. destruct (ensure_cases s o) as [(l & Hn & E)|(_ & E)]; rewrite E; simpl.
  - eapply wf_obj_loc; eauto.
  - rewrite app_length, hset_length. simpl. apply wf_elim in Hwf. lia.
Qed.

Lemma ensure_obj_same : forall (s : state) o, o < length (ob s) ->
  nth o (ob (fst (ens s o))) None = Some (snd (ens s o)).
Proof.
  intros s o Hlt. destruct (ensure_cases s o) as [(l & Hn & E)|(_ & E)]; rewrite E; simpl; auto.
  apply nth_oset_same; auto.
Qed.

Lemma ensure_obj_mono : forall (s : state) o o' l,
  nth o' (ob s) None = Some l -> nth o' (ob (fst (ens s o))) None = Some l.
Proof.
  intros s o o' l H. destruct (ensure_cases s o) as [(l0 & Hn & E)|(Hn & E)]; rewrite E; simpl; auto.
  rewrite nth_oset_other; auto. intros ->. congruence.
Qed.

Lemma ensure_obj_other : forall (s : state) o o', o <> o' ->
  nth o' (ob (fst (ens s o))) None = nth o' (ob s) None.
Proof.
  intros s o o' Hne. destruct (ensure_cases s o) as [(l0 & Hn & E)|(Hn & E)]; rewrite E; simpl; auto.
  apply nth_oset_other; auto.
Qed.

(* the location used by a call on o is nobody else's *)
Lemma ensure_loc_obj : forall (s : state) o o' l, WF s ->
  nth o' (ob s) None = Some l -> o' <> o -> l <> snd (ens s o).
Proof.
  intros s o o' l Hwf H Hne. destruct (ensure_cases s o) as [(l0 & Hn & E)|(Hn & E)]; rewrite E; simpl.
  - intros ->. apply Hne. eapply wf_obj_inj; eauto.
  - pose proof (wf_obj_loc s o' l Hwf H). lia.
Qed.

Lemma ensure_loc_hand : forall (s : state) o h l, WF s ->
  nth_error (hd s) h = Some l -> l <> snd (ens s o).
Proof.
  intros s o h l Hwf H. destruct (ensure_cases s o) as [(l0 & Hn & E)|(Hn & E)]; rewrite E; simpl.
  - intros ->. eapply wf_obj_hand; eauto.
  - pose proof (wf_hand_loc s h l Hwf H). lia.
Qed.

(* ensure leaves every allocated location except the global generator alone *)
Lemma ensure_heap_frame : forall (s : state) o l, 1 <= l < length (hp s) ->
  hgt (hp (fst (ens s o))) l dflt = hgt (hp s) l dflt.
Proof.
  intros s o l Hl. destruct (ensure_cases s o) as [(l0 & Hn & E)|(Hn & E)]; rewrite E; simpl; auto.
  rewrite hget_app_l by (rewrite hset_length; lia). apply hget_hset_other. lia.
Qed.

(* step, by equations *)
Lemma step_call_eq : forall (s : state) o d,
  stp s (OCall o d) =
  (mkSt S (hst (hp (fst (ens s o))) (snd (ens s o)) (fst (call d (hgt (hp (fst (ens s o))) (snd (ens s o)) dflt))))
          (ob (fst (ens s o))) (hd (fst (ens s o))),
   snd (call d (hgt (hp (fst (ens s o))) (snd (ens s o)) dflt))).
Proof. intros. simpl. destruct (ens s o) as [s1 l]. simpl. destruct (call d _). reflexivity. Qed.

Lemma step_get_eq : forall (s : state) o,
  stp s (OGet o) =
  (mkSt S (hp (fst (ens s o)) ++ [hgt (hp (fst (ens s o))) (snd (ens s o)) dflt])
          (ob (fst (ens s o))) (hd (fst (ens s o)) ++ [length (hp (fst (ens s o)))]), []).
Proof. intros. simpl. destruct (ens s o) as [s1 l]. reflexivity. Qed.

Lemma step_set_some : forall (s : state) o h lh, nth_error (hd s) h = Some lh ->
  stp s (OSet o h) = (mkSt S (hp s ++ [hgt (hp s) lh dflt]) (oset (ob s) o (length (hp s))) (hd s), []).
Proof. intros s o h lh H. simpl. rewrite H. reflexivity. Qed.

Lemma step_set_none : forall (s : state) o h, nth_error (hd s) h = None -> stp s (OSet o h) = (s, []).
Proof. intros s o h H. simpl. rewrite H. reflexivity. Qed.

Lemma step_mk_eq : forall (s : state) z,
  stp s (OMk z) = (mkSt S (hp s ++ [mk z]) (ob s) (hd s ++ [length (hp s)]), []).
Proof. reflexivity. Qed.

Lemma step_drawh_some : forall (s : state) h lh, nth_error (hd s) h = Some lh ->
  stp s (ODrawH h) = (mkSt S (hst (hp s) lh (fst (draw (hgt (hp s) lh dflt)))) (ob s) (hd s),
                      [snd (draw (hgt (hp s) lh dflt))]).
Proof. intros s h lh H. simpl. rewrite H. destruct (draw _). reflexivity. Qed.

Lemma step_drawh_none : forall (s : state) h, nth_error (hd s) h = None -> stp s (ODrawH h) = (s, []).
Proof. intros s h H. simpl. rewrite H. reflexivity. Qed.

Lemma step_global_eq : forall s : state,
  stp s OGlobal = (mkSt S (hst (hp s) 0 (fst (draw (hgt (hp s) 0 dflt)))) (ob s) (hd s),
                   [snd (draw (hgt (hp s) 0 dflt))]).
Proof. intros s. simpl. destruct (draw _). reflexivity. Qed.

Opaque step ensure.

(* no side condition is needed: operations on object indices out of range allocate a location nobody refers to *)
Theorem step_wf : forall (s : state) x, WF s -> WF (fst (stp s x)).
Proof.
  intros s x Hwf. destruct x as [o d|o|o h|z|h|].
  - rewrite step_call_eq. simpl. apply wf_same_len. apply ensure_wf; auto. apply hset_length.
  - rewrite step_get_eq. simpl. apply wf_alloc_hand. apply ensure_wf; auto.
    rewrite app_length. simpl. lia.
  - destruct (nth_error (hd s) h) as [lh|] eqn:E.
    + rewrite (step_set_some _ _ _ _ E). simpl. apply wf_alloc_obj; auto. rewrite app_length. simpl. lia.
    + rewrite (step_set_none _ _ _ E). auto.
  - rewrite step_mk_eq. simpl. apply wf_alloc_hand; auto. rewrite app_length. simpl. lia.
  - destruct (nth_error (hd s) h) as [lh|] eqn:E.
    + rewrite (step_drawh_some _ _ _ E). simpl. apply wf_same_len; auto. apply hset_length.
    + rewrite (step_drawh_none _ _ E). auto.
  - rewrite step_global_eq. simpl. apply wf_same_len; auto. apply hset_length.
Qed.

Theorem step_objs_length : forall (s : state) x, length (ob (fst (stp s x))) = length (ob s).
Proof.
  intros s x. destruct x as [o d|o|o h|z|h|].
  - rewrite step_call_eq. simpl. apply ensure_objs_length.
  - rewrite step_get_eq. simpl. apply ensure_objs_length.
  - destruct (nth_error (hd s) h) as [lh|] eqn:E.
    + rewrite (step_set_some _ _ _ _ E). simpl. apply oset_length.
    + rewrite (step_set_none _ _ _ E). auto.
  - rewrite step_mk_eq. reflexivity.
  - destruct (nth_error (hd s) h) as [lh|] eqn:E.
    + rewrite (step_drawh_some _ _ _ E). reflexivity.
    + rewrite (step_drawh_none _ _ E). auto.
  - rewrite step_global_eq. reflexivity.
Qed.


Lemma run_nil : forall s : state, rn s [] = (s, []).
Proof. reflexivity. Qed.

Lemma run_cons : forall (s : state) x t,
  rn s (x :: t) = (fst (rn (fst (stp s x)) t), snd (stp s x) :: snd (rn (fst (stp s x)) t)).
Proof. intros. simpl. destruct (stp s x) as [s1 o1]. simpl. destruct (rn s1 t). reflexivity. Qed.

Lemma run_app : forall a (s : state) b,
  rn s (a ++ b) = (fst (rn (fst (rn s a)) b), snd (rn s a) ++ snd (rn (fst (rn s a)) b)).
Proof.
  induction a as [|x t IH]; intros s b.
  - rewrite run_nil. simpl. destruct (rn s b); reflexivity.
  - rewrite <- app_comm_cons. rewrite !run_cons. rewrite IH. reflexivity.
Qed.

Opaque run.

Lemma run_length : forall l (s : state), length (snd (rn s l)) = length l.
Proof.
  induction l as [|x t IH]; intros s.
  - rewrite run_nil. reflexivity.
  - rewrite run_cons. simpl. rewrite IH. reflexivity.
Qed.

Theorem run_wf : forall l (s : state), WF s -> WF (fst (rn s l)).
Proof.
  induction l as [|x t IH]; intros s Hwf.
  - rewrite run_nil. auto.
  - rewrite run_cons. simpl. apply IH. apply step_wf. auto.
Qed.

Theorem run_objs_length : forall l (s : state), length (ob (fst (rn s l))) = length (ob s).
Proof.
  induction l as [|x t IH]; intros s.
  - rewrite run_nil. auto.
  - rewrite run_cons. simpl. rewrite IH. apply step_objs_length.
Qed.

(* ---------------- 2. frame ---------------- *)
Lemma ostate_intro : forall (s : state) o l g,
  nth o (ob s) None = Some l -> hgt (hp s) l dflt = g -> ostate s o = Some g.
Proof. intros s o l g H1 H2. unfold obj_state. rewrite H1, H2. reflexivity. Qed.

Lemma ostate_elim : forall (s : state) o g, ostate s o = Some g ->
  exists l, nth o (ob s) None = Some l /\ hgt (hp s) l dflt = g.
Proof.
  intros s o g H. unfold obj_state in H. destruct (nth o (ob s) None) as [l|]; [|discriminate].
  exists l. split; congruence.
Qed.

Lemma hstate_intro : forall (s : state) h l g,
  nth_error (hd s) h = Some l -> hgt (hp s) l dflt = g -> hstate s h = Some g.
Proof. intros s h l g H1 H2. unfold hand_state. rewrite H1, H2. reflexivity. Qed.

Lemma hstate_elim : forall (s : state) h g, hstate s h = Some g ->
  exists l, nth_error (hd s) h = Some l /\ hgt (hp s) l dflt = g.
Proof.
  intros s h g H. unfold hand_state in H. destruct (nth_error (hd s) h) as [l|]; [|discriminate].
  exists l. split; congruence.
Qed.

Lemma ostate_lt : forall (s : state) o g, ostate s o = Some g -> o < length (ob s).
Proof. intros s o g H. apply ostate_elim in H. destruct H as (l & H & _). eapply nth_some_lt; eauto. Qed.

(* an object's state is changed only by calls on it and by set_randstate on it *)
Theorem obj_frame : forall (s : state) x o g,
  WF s -> ostate s o = Some g -> touches o x = false -> ostate (fst (stp s x)) o = Some g.
Proof.
  intros s x o g Hwf Hst Ht. apply ostate_elim in Hst. destruct Hst as (l & En & Hg).
  pose proof (wf_obj_loc s o l Hwf En) as Hl.
  destruct x as [o' d|o'|o' h|z|h|]; simpl in Ht.
  - apply Nat.eqb_neq in Ht. rewrite step_call_eq. simpl. apply ostate_intro with l; simpl.
    + rewrite ensure_obj_other; auto.
    + rewrite hget_hset_other.
      * rewrite ensure_heap_frame; auto.
      * intro Hc. apply (ensure_loc_obj s o' o l Hwf En); auto.
  - rewrite step_get_eq. simpl. apply ostate_intro with l; simpl.
    + apply ensure_obj_mono; auto.
    + rewrite hget_app_l.
      * rewrite ensure_heap_frame; auto.
      * pose proof (ensure_heap_length s o'). lia.
  - apply Nat.eqb_neq in Ht. destruct (nth_error (hd s) h) as [lh|] eqn:E.
    + rewrite (step_set_some _ _ _ _ E). simpl. apply ostate_intro with l; simpl.
      * rewrite nth_oset_other; auto.
      * rewrite hget_app_l; auto. lia.
    + rewrite (step_set_none _ _ _ E). simpl. apply ostate_intro with l; auto.
  - rewrite step_mk_eq. simpl. apply ostate_intro with l; simpl; auto.
    rewrite hget_app_l; auto. lia.
  - destruct (nth_error (hd s) h) as [lh|] eqn:E.
    + rewrite (step_drawh_some _ _ _ E). simpl. apply ostate_intro with l; simpl; auto.
      rewrite hget_hset_other; auto. intro Hc. apply (wf_obj_hand s o h l lh Hwf En E). auto.
    + rewrite (step_drawh_none _ _ E). simpl. apply ostate_intro with l; auto.
  - rewrite step_global_eq. simpl. apply ostate_intro with l; simpl; auto.
    rewrite hget_hset_other; auto. lia.
Qed.

(* a handle's state is changed only by drawing from that handle *)
Theorem hand_frame : forall (s : state) x h g,
  WF s -> hstate s h = Some g -> x <> ODrawH h -> hstate (fst (stp s x)) h = Some g.
Proof.
  intros s x h g Hwf Hst Hx. apply hstate_elim in Hst. destruct Hst as (lh & En & Hg).
  pose proof (wf_hand_loc s h lh Hwf En) as Hl.
  assert (Hh : h < length (hd s)) by (apply nth_error_Some; congruence).
  destruct x as [o d|o|o h'|z|h'|].
  - rewrite step_call_eq. simpl. apply hstate_intro with lh; simpl.
    + rewrite ensure_hands; auto.
    + rewrite hget_hset_other.
      * rewrite ensure_heap_frame; auto.
      * intro Hc. apply (ensure_loc_hand s o h lh Hwf En); auto.
  - rewrite step_get_eq. simpl. apply hstate_intro with lh; simpl.
    + rewrite ensure_hands. rewrite nth_error_app1; auto.
    + rewrite hget_app_l.
      * rewrite ensure_heap_frame; auto.
      * pose proof (ensure_heap_length s o). lia.
  - destruct (nth_error (hd s) h') as [lh'|] eqn:E.
    + rewrite (step_set_some _ _ _ _ E). simpl. apply hstate_intro with lh; simpl; auto.
      rewrite hget_app_l; auto. lia.
    + rewrite (step_set_none _ _ _ E). simpl. apply hstate_intro with lh; auto.
  - rewrite step_mk_eq. simpl. apply hstate_intro with lh; simpl.
    + rewrite nth_error_app1; auto.
    + rewrite hget_app_l; auto. lia.
  - destruct (nth_error (hd s) h') as [lh'|] eqn:E.
    + rewrite (step_drawh_some _ _ _ E). simpl. apply hstate_intro with lh; simpl; auto.
      rewrite hget_hset_other; auto. intro Hc. subst lh'. apply Hx. f_equal.
      apply (wf_hand_inj s h' h lh Hwf E En).
    + rewrite (step_drawh_none _ _ E). simpl. apply hstate_intro with lh; auto.
  - rewrite step_global_eq. simpl. apply hstate_intro with lh; simpl; auto.
    rewrite hget_hset_other; auto. lia.
Qed.

Lemma run_obj_frame : forall l (s : state) o g,
  WF s -> ostate s o = Some g -> (forall x, In x l -> touches o x = false) -> ostate (fst (rn s l)) o = Some g.
Proof.
  induction l as [|x t IH]; intros s o g Hwf Hst Hq.
  - rewrite run_nil. auto.
  - rewrite run_cons. simpl. apply IH.
    + apply step_wf; auto.
    + apply obj_frame; auto. apply Hq. left; auto.
    + intros y Hy. apply Hq. right; auto.
Qed.

Lemma run_hand_frame : forall l (s : state) h g,
  WF s -> hstate s h = Some g -> (forall x, In x l -> x <> ODrawH h) -> hstate (fst (rn s l)) h = Some g.
Proof.
  induction l as [|x t IH]; intros s h g Hwf Hst Hq.
  - rewrite run_nil. auto.
  - rewrite run_cons. simpl. apply IH.
    + apply step_wf; auto.
    + apply hand_frame; auto. apply Hq. left; auto.
    + intros y Hy. apply Hq. right; auto.
Qed.

(* ---------------- 3. snapshot and restore ---------------- *)
Theorem get_snapshot : forall (s : state) o, WF s -> o < length (ob s) ->
  let s' := fst (stp s (OGet o)) in
  hstate s' (length (hd s)) = ostate s' o /\ ostate s' o <> None /\
  (forall g, ostate s o = Some g -> ostate s' o = Some g).
Proof.
  intros s o Hwf Hlt s'.
  assert (Ho : ostate s' o = Some (hgt (hp (fst (ens s o))) (snd (ens s o)) dflt)).
  { subst s'. rewrite step_get_eq. simpl. eapply ostate_intro; simpl.
    - apply ensure_obj_same; auto.
    - apply hget_app_l. apply ensure_loc; auto. }
  assert (Hh : hstate s' (length (hd s)) = Some (hgt (hp (fst (ens s o))) (snd (ens s o)) dflt)).
  { subst s'. rewrite step_get_eq. simpl. eapply hstate_intro; simpl.
    - rewrite ensure_hands. rewrite nth_error_app2 by lia. rewrite Nat.sub_diag. simpl. reflexivity.
    - apply hget_app_new. }
  split; [congruence|]. split; [congruence|].
  intros g Hg. subst s'. apply obj_frame; auto.
Qed.

Theorem set_copies : forall (s : state) o h g, WF s -> o < length (ob s) -> hstate s h = Some g ->
  let s' := fst (stp s (OSet o h)) in ostate s' o = Some g /\ hstate s' h = Some g.
Proof.
  intros s o h g Hwf Hlt Hst s'. apply hstate_elim in Hst. destruct Hst as (lh & En & Hg).
  subst s'. rewrite (step_set_some _ _ _ _ En). simpl. split.
  - eapply ostate_intro; simpl.
    + apply nth_oset_same; auto.
    + rewrite hget_app_new. auto.
  - eapply hstate_intro; simpl; eauto. rewrite hget_app_l; auto.
    pose proof (wf_hand_loc s h lh Hwf En). lia.
Qed.

(* ---------------- 4. calls are a function of the object's state ---------------- *)
Lemma seq_calls_cons : forall d t g,
  seqc (d :: t) g = (fst (seqc t (fst (call d g))), snd (call d g) :: snd (seqc t (fst (call d g)))).
Proof. intros. simpl. destruct (call d g) as [g1 out]. simpl. destruct (seqc t g1). reflexivity. Qed.

Lemma seq_calls_length : forall ds g, length (snd (seqc ds g)) = length ds.
Proof.
  induction ds as [|d t IH]; intros g; [reflexivity|].
  rewrite seq_calls_cons. simpl. rewrite IH. reflexivity.
Qed.

Lemma call_step : forall (s : state) o d g, WF s -> ostate s o = Some g ->
  ostate (fst (stp s (OCall o d))) o = Some (fst (call d g)) /\ snd (stp s (OCall o d)) = snd (call d g).
Proof.
  intros s o d g Hwf Hst. apply ostate_elim in Hst. destruct Hst as (l & En & Hg).
  rewrite step_call_eq. rewrite (ensure_some s o l En). simpl. rewrite Hg. split; auto.
  eapply ostate_intro; simpl; eauto. apply hget_hset_same.
  pose proof (wf_obj_loc s o l Hwf En). lia.
Qed.

Lemma touches_false_is_call : forall o x, touches o x = false -> is_call o x = None.
Proof. intros o x H. destruct x; simpl in *; auto. rewrite H. reflexivity. Qed.

Theorem noise_irrelevant : forall l (s : state) o g, WF s -> ostate s o = Some g -> no_set o l ->
  outs_of o l (snd (rn s l)) = snd (seqc (calls_of o l) g) /\
  ostate (fst (rn s l)) o = Some (fst (seqc (calls_of o l) g)).
Proof.
  induction l as [|x t IH]; intros s o g Hwf Hst Hno.
  - rewrite run_nil. simpl. auto.
  - rewrite run_cons. unfold fst at 1. unfold snd at 1.
    assert (Hno' : no_set o t) by (intros y Hy; apply Hno; right; auto).
    destruct (touches o x) eqn:Ht.
    + destruct (Hno x (or_introl eq_refl) Ht) as (d & ->).
      destruct (call_step s o d g Hwf Hst) as (Hs1 & Ho1).
      destruct (IH (fst (stp s (OCall o d))) o (fst (call d g))) as (IH1 & IH2); auto.
      { apply step_wf; auto. }
      simpl calls_of. simpl outs_of. rewrite Nat.eqb_refl. rewrite seq_calls_cons.
      unfold fst at 2. unfold snd at 3.
      rewrite IH1, Ho1. split; auto.
    + pose proof (touches_false_is_call o x Ht) as Hic.
      simpl calls_of. simpl outs_of. rewrite Hic. apply IH; auto.
      * apply step_wf; auto.
      * apply obj_frame; auto.
Qed.

Lemma outs_of_quiet : forall l outs o, (forall x, In x l -> touches o x = false) -> outs_of o l outs = [].
Proof.
  induction l as [|x t IH]; intros outs o Hq; [reflexivity|].
  destruct outs as [|a outs]; [reflexivity|]. simpl.
  rewrite (touches_false_is_call o x) by (apply Hq; left; auto).
  apply IH. intros y Hy. apply Hq. right; auto.
Qed.

Lemma calls_of_quiet : forall l o, (forall x, In x l -> touches o x = false) -> calls_of o l = [].
Proof.
  induction l as [|x t IH]; intros o Hq; [reflexivity|]. simpl.
  rewrite (touches_false_is_call o x) by (apply Hq; left; auto).
  apply IH. intros y Hy. apply Hq. right; auto.
Qed.

Lemma calls_of_map : forall ds o, calls_of o (map (OCall o) ds) = ds.
Proof. induction ds as [|d t IH]; intros o; simpl; auto. rewrite Nat.eqb_refl, IH. reflexivity. Qed.

Lemma calls_of_app : forall a b o, calls_of o (a ++ b) = calls_of o a ++ calls_of o b.
Proof.
  induction a as [|x t IH]; intros b o; simpl; auto.
  destruct (is_call o x); rewrite IH; reflexivity.
Qed.

Lemma outs_of_map : forall ds outs o, length outs = length ds -> outs_of o (map (OCall o) ds) outs = outs.
Proof.
  induction ds as [|d t IH]; intros outs o Hl; destruct outs as [|a outs]; simpl in *; try discriminate; auto.
  rewrite Nat.eqb_refl, IH; auto.
Qed.

Lemma outs_of_app : forall a b oa ob' o, length oa = length a ->
  outs_of o (a ++ b) (oa ++ ob') = outs_of o a oa ++ outs_of o b ob'.
Proof.
  induction a as [|x t IH]; intros b oa ob' o Hl; destruct oa as [|y oa]; simpl in *; try discriminate; auto.
  destruct (is_call o x); rewrite IH; auto.
Qed.

Lemma outs_run_app : forall a b (s : state) o,
  outs_of o (a ++ b) (snd (rn s (a ++ b))) =
  outs_of o a (snd (rn s a)) ++ outs_of o b (snd (rn (fst (rn s a)) b)).
Proof. intros. rewrite run_app. simpl. apply outs_of_app. apply run_length. Qed.

Lemma no_set_map : forall o ds, no_set o (map (OCall o) ds).
Proof.
  intros o ds x Hin _. apply in_map_iff in Hin. destruct Hin as (d & <- & _). exists d. reflexivity.
Qed.

(* a batch of calls on o *)
Lemma run_calls : forall ds (s : state) o g, WF s -> ostate s o = Some g ->
  snd (rn s (map (OCall o) ds)) = snd (seqc ds g) /\
  ostate (fst (rn s (map (OCall o) ds))) o = Some (fst (seqc ds g)).
Proof.
  intros ds s o g Hwf Hst.
  destruct (noise_irrelevant (map (OCall o) ds) s o g Hwf Hst (no_set_map o ds)) as (H1 & H2).
  rewrite calls_of_map in *. rewrite outs_of_map in H1; auto.
  rewrite run_length. apply map_length.
Qed.

Lemma quiet_touch : forall o h n, quiet o h n -> forall x, In x n -> touches o x = false.
Proof. intros o h n Hq x Hx. apply Hq; auto. Qed.

Lemma quiet_draw : forall o h n, quiet o h n -> forall x, In x n -> x <> ODrawH h.
Proof. intros o h n Hq x Hx. apply Hq; auto. Qed.

Lemma quiet_app : forall o h a b, quiet o h a -> quiet o h b -> quiet o h (a ++ b).
Proof. intros o h a b Ha Hb x Hx. apply in_app_or in Hx. destruct Hx; auto. Qed.

(* what a quiet stretch preserves *)
Lemma run_quiet : forall n (s : state) o h g, WF s -> quiet o h n ->
  WF (fst (rn s n)) /\
  (ostate s o = Some g -> ostate (fst (rn s n)) o = Some g) /\
  (hstate s h = Some g -> hstate (fst (rn s n)) h = Some g) /\
  outs_of o n (snd (rn s n)) = [].
Proof.
  intros n s o h g Hwf Hq. split; [apply run_wf; auto|]. split; [|split].
  - intros H. eapply run_obj_frame; eauto. eapply quiet_touch; eauto.
  - intros H. eapply run_hand_frame; eauto. eapply quiet_draw; eauto.
  - apply outs_of_quiet. eapply quiet_touch; eauto.
Qed.

(* what a batch of calls on o does *)
Lemma run_batch : forall ds (s : state) o h g gh, WF s -> ostate s o = Some g -> hstate s h = Some gh ->
  WF (fst (rn s (map (OCall o) ds))) /\
  snd (rn s (map (OCall o) ds)) = snd (seqc ds g) /\
  outs_of o (map (OCall o) ds) (snd (rn s (map (OCall o) ds))) = snd (seqc ds g) /\
  ostate (fst (rn s (map (OCall o) ds))) o = Some (fst (seqc ds g)) /\
  hstate (fst (rn s (map (OCall o) ds))) h = Some gh.
Proof.
  intros ds s o h g gh Hwf Ho Hh. destruct (run_calls ds s o g Hwf Ho) as (H1 & H2).
  split; [apply run_wf; auto|]. split; auto. split; [|split; auto].
  - rewrite outs_of_map; auto. rewrite run_length. apply map_length.
  - apply run_hand_frame; auto. intros x Hx. apply in_map_iff in Hx. destruct Hx as (d & <- & _). discriminate.
Qed.

(* The values that followed a snapshot are replayed exactly after restoring it, whatever happens in between to other
   objects, other handles and the global generator; the handle is not consumed. *)
Theorem restore_replays_gen : forall (s : state) o ds n1 n2 n3, WF s -> o < length (ob s) ->
  let h := length (hd s) in
  quiet o h n1 -> quiet o h n2 -> quiet o h n3 ->
  let l := [OGet o] ++ n1 ++ map (OCall o) ds ++ n2 ++ [OSet o h] ++ n3 ++ map (OCall o) ds in
  exists g1,
    ostate (fst (stp s (OGet o))) o = Some g1 /\
    hstate (fst (stp s (OGet o))) h = Some g1 /\
    (exists pre mid, snd (rn s l) = pre ++ snd (seqc ds g1) ++ mid ++ snd (seqc ds g1) /\
                     length pre = 1 + length n1 /\ length mid = length n2 + 1 + length n3) /\
    outs_of o l (snd (rn s l)) = snd (seqc ds g1) ++ snd (seqc ds g1) /\
    ostate (fst (rn s l)) o = Some (fst (seqc ds g1)) /\
    hstate (fst (rn s l)) h = Some g1 /\
    WF (fst (rn s l)).
Proof.
  intros s o ds n1 n2 n3 Hwf Hlt h Q1 Q2 Q3 l.
  destruct (get_snapshot s o Hwf Hlt) as (Hsnap & Hnn & _). fold h in Hsnap.
  set (s0 := fst (stp s (OGet o))) in *.
  destruct (ostate s0 o) as [g1|] eqn:Ho0; [|congruence]. clear Hnn.
  exists g1. split; [reflexivity|]. split; [exact Hsnap|].
  assert (Hwf0 : WF s0) by (apply step_wf; auto).
  (* n1 *)
  destruct (run_quiet n1 s0 o h g1 Hwf0 Q1) as (HwfA & HoA & HhA & HqA).
  specialize (HoA Ho0). specialize (HhA Hsnap).
  set (sA := fst (rn s0 n1)) in *.
  (* first batch *)
  destruct (run_batch ds sA o h g1 g1 HwfA HoA HhA) as (HwfB & HsB & HqB & HoB & HhB).
  set (sB := fst (rn sA (map (OCall o) ds))) in *.
  (* n2 *)
  destruct (run_quiet n2 sB o h g1 HwfB Q2) as (HwfC & _ & HhC & HqC).
  specialize (HhC HhB).
  set (sC := fst (rn sB n2)) in *.
  (* restore *)
  assert (HltC : o < length (ob sC)).
  { unfold sC, sB, sA, s0. rewrite !run_objs_length, step_objs_length. auto. }
  destruct (set_copies sC o h g1 HwfC HltC HhC) as (HoD & HhD).
  assert (HwfD : WF (fst (stp sC (OSet o h)))) by (apply step_wf; auto).
  set (sD := fst (stp sC (OSet o h))) in *.
  (* n3 *)
  destruct (run_quiet n3 sD o h g1 HwfD Q3) as (HwfE & HoE & HhE & HqE).
  specialize (HoE HoD). specialize (HhE HhD).
  set (sE := fst (rn sD n3)) in *.
  (* second batch *)
  destruct (run_batch ds sE o h g1 g1 HwfE HoE HhE) as (HwfF & HsF & HqF & HoF & HhF).
  set (sF := fst (rn sE (map (OCall o) ds))) in *.
  (* put the run together *)
  assert (Hfst : fst (rn s l) = sF).
  { unfold l. simpl app. rewrite run_cons. simpl fst. fold s0.
    rewrite run_app. simpl fst. fold sA. rewrite run_app. simpl fst. fold sB.
    rewrite run_app. simpl fst. fold sC. rewrite run_cons. simpl fst. fold sD.
    rewrite run_app. simpl fst. fold sE. reflexivity. }
  assert (Hsnd : snd (rn s l) =
    (snd (stp s (OGet o)) :: snd (rn s0 n1)) ++ snd (seqc ds g1) ++
    (snd (rn sB n2) ++ snd (stp sC (OSet o h)) :: snd (rn sD n3)) ++ snd (seqc ds g1)).
  { unfold l. simpl app. rewrite run_cons. simpl snd. simpl fst. fold s0.
    rewrite run_app. simpl snd. simpl fst. fold sA. rewrite run_app. simpl snd. simpl fst. fold sB.
    rewrite run_app. simpl snd. simpl fst. fold sC. rewrite run_cons. simpl snd. simpl fst. fold sD.
    rewrite run_app. simpl snd. simpl fst. fold sE.
    rewrite HsB, HsF. rewrite <- !app_assoc. simpl. reflexivity. }
  split; [|split; [|split; [|split]]].
  - eexists. eexists. split; [exact Hsnd|]. split.
    + simpl. rewrite run_length. reflexivity.
    + rewrite app_length. simpl. rewrite !run_length. lia.
  - unfold l. simpl app.
    change (OGet o :: n1 ++ map (OCall o) ds ++ n2 ++ OSet o h :: n3 ++ map (OCall o) ds)
      with ([OGet o] ++ n1 ++ map (OCall o) ds ++ n2 ++ [OSet o h] ++ n3 ++ map (OCall o) ds).
    rewrite outs_run_app. rewrite run_cons, run_nil. simpl fst. fold s0.
    rewrite outs_run_app. fold sA. rewrite HqA.
    rewrite outs_run_app. fold sB. rewrite HqB.
    rewrite outs_run_app. fold sC. rewrite HqC.
    rewrite outs_run_app. rewrite run_cons, run_nil. simpl fst. fold sD.
    rewrite outs_run_app. fold sE. rewrite HqE. rewrite HqF.
    simpl. reflexivity.
  - rewrite Hfst. exact HoF.
  - rewrite Hfst. exact HhF.
  - rewrite Hfst. exact HwfF.
Qed.

(* the concrete form: the same noise n1 before both batches *)
Theorem restore_replays : forall (s : state) o ds n1 n2, WF s -> o < length (ob s) ->
  let h := length (hd s) in
  quiet o h n1 -> quiet o h n2 ->
  let l := [OGet o] ++ n1 ++ map (OCall o) ds ++ n2 ++ [OSet o h] ++ n1 ++ map (OCall o) ds in
  exists g1,
    ostate (fst (stp s (OGet o))) o = Some g1 /\
    hstate (fst (stp s (OGet o))) h = Some g1 /\
    (exists pre mid, snd (rn s l) = pre ++ snd (seqc ds g1) ++ mid ++ snd (seqc ds g1) /\
                     length pre = 1 + length n1 /\ length mid = length n2 + 1 + length n1) /\
    outs_of o l (snd (rn s l)) = snd (seqc ds g1) ++ snd (seqc ds g1) /\
    ostate (fst (rn s l)) o = Some (fst (seqc ds g1)) /\
    hstate (fst (rn s l)) h = Some g1 /\
    WF (fst (rn s l)).
Proof. intros s o ds n1 n2 Hwf Hlt h Q1 Q2. apply restore_replays_gen; auto. Qed.

Lemma firstn_len_app : forall (A : Type) (a b : list A), firstn (length a) (a ++ b) = a.
Proof. intros. rewrite firstn_app, Nat.sub_diag, firstn_all. simpl. apply app_nil_r. Qed.

Lemma skipn_len_app : forall (A : Type) (a b : list A), skipn (length a) (a ++ b) = b.
Proof. intros. rewrite skipn_app, Nat.sub_diag, skipn_all. reflexivity. Qed.

(* the two batches return the same values *)
Corollary restore_replays_same : forall (s : state) o ds n1 n2 n3, WF s -> o < length (ob s) ->
  let h := length (hd s) in
  quiet o h n1 -> quiet o h n2 -> quiet o h n3 ->
  let l := [OGet o] ++ n1 ++ map (OCall o) ds ++ n2 ++ [OSet o h] ++ n3 ++ map (OCall o) ds in
  let outs := outs_of o l (snd (rn s l)) in
  firstn (length ds) outs = skipn (length ds) outs /\ length outs = 2 * length ds.
Proof.
  intros s o ds n1 n2 n3 Hwf Hlt h Q1 Q2 Q3 l outs.
  destruct (restore_replays_gen s o ds n1 n2 n3 Hwf Hlt Q1 Q2 Q3) as (g1 & _ & _ & _ & H & _).
  fold h l in H. fold outs in H. rewrite H.
  rewrite <- (seq_calls_length ds g1). rewrite firstn_len_app, skipn_len_app, app_length. split; auto. lia.
Qed.

(* one RandState handed to two objects: each of them produces, from it, what the pure function says, however the
   calls (and anything else that is not a set_randstate on them) are interleaved *)
Theorem one_state_many : forall (s : state) o1 o2 h g l, WF s -> o1 <> o2 ->
  o1 < length (ob s) -> o2 < length (ob s) -> hstate s h = Some g ->
  no_set o1 l -> no_set o2 l ->
  let l' := [OSet o1 h; OSet o2 h] ++ l in
  outs_of o1 l' (snd (rn s l')) = snd (seqc (calls_of o1 l) g) /\
  outs_of o2 l' (snd (rn s l')) = snd (seqc (calls_of o2 l) g).
Proof.
  intros s o1 o2 h g l Hwf Hne H1 H2 Hh N1 N2 l'.
  destruct (set_copies s o1 h g Hwf H1 Hh) as (Ho1 & Hh1).
  assert (Hwf1 : WF (fst (stp s (OSet o1 h)))) by (apply step_wf; auto).
  set (s1 := fst (stp s (OSet o1 h))) in *.
  assert (H2' : o2 < length (ob s1)) by (unfold s1; rewrite step_objs_length; auto).
  destruct (set_copies s1 o2 h g Hwf1 H2' Hh1) as (Ho2 & Hh2).
  assert (Ho1' : ostate (fst (stp s1 (OSet o2 h))) o1 = Some g).
  { apply obj_frame; auto. simpl. apply Nat.eqb_neq. auto. }
  assert (Hwf2 : WF (fst (stp s1 (OSet o2 h)))) by (apply step_wf; auto).
  set (s2 := fst (stp s1 (OSet o2 h))) in *.
  assert (Hrun : forall o, outs_of o l' (snd (rn s l')) = outs_of o l (snd (rn s2 l))).
  { intros o. unfold l'. rewrite outs_run_app. rewrite !run_cons, run_nil. simpl fst. fold s1. fold s2.
    simpl. reflexivity. }
  rewrite !Hrun. split.
  - apply (noise_irrelevant l s2 o1 g Hwf2 Ho1' N1).
  - apply (noise_irrelevant l s2 o2 g Hwf2 Ho2 N2).
Qed.

(* in particular when l consists of calls on o1 and o2 only *)
Lemma calls_only_no_set : forall o1 o2 l,
  (forall x, In x l -> exists d, x = OCall o1 d \/ x = OCall o2 d) -> o1 <> o2 -> no_set o1 l /\ no_set o2 l.
Proof.
  intros o1 o2 l H Hne. split; intros x Hx Ht; destruct (H x Hx) as (d & [->| ->]); simpl in Ht.
  - exists d; reflexivity.
  - apply Nat.eqb_eq in Ht. congruence.
  - apply Nat.eqb_eq in Ht. congruence.
  - exists d; reflexivity.
Qed.

(* an object that was never given a state gets one seeded by the next draw of the global generator *)
Theorem default_from_global : forall (s : state) o, o < length (ob s) -> nth o (ob s) None = None ->
  ostate (fst (ens s o)) o = Some (mk (snd (draw (hgt (hp s) 0 dflt)))).
Proof.
  intros s o Hlt Hn. rewrite ensure_none by auto. simpl. eapply ostate_intro; simpl.
  - apply nth_oset_same; auto.
  - rewrite <- (hset_length (hp s) 0 (fst (draw (hgt (hp s) 0 dflt)))). apply hget_app_new.
Qed.

End RndProofs.

Transparent step ensure run.

Print Assumptions wf_init.
Print Assumptions step_wf.
Print Assumptions step_objs_length.
Print Assumptions run_wf.
Print Assumptions obj_frame.
Print Assumptions hand_frame.
Print Assumptions get_snapshot.
Print Assumptions set_copies.
Print Assumptions noise_irrelevant.
Print Assumptions restore_replays_gen.
Print Assumptions restore_replays.
Print Assumptions restore_replays_same.
Print Assumptions one_state_many.
Print Assumptions default_from_global.

(* ---------------- 5. examples on the symbolic instance ---------------- *)
Definition ex_ops : list op :=
  [OMk 7; OSet 0 0; OCall 0 1; OCall 0 1; OSet 1 0; OCall 1 1; OGet 0; OCall 0 2; OSet 0 1; OCall 0 2; OCall 1 1;
   OGlobal; OCall 1 1].

Example classes_example :
  classes 2 ex_ops = [-1; -1; 2; 3; -1; 2; -1; 7; -1; 7; 3; -1; 12]%Z.
Proof. vm_compute. reflexivity. Qed.

Example wf_example :
  wf sym (fst (run sym sym_draw_tagged sym_mk sym_call sym0 (init sym sym0 2) ex_ops)).
Proof. apply run_wf. apply wf_init. Qed.

(* the hypotheses of restore_replays are needed: drawing from the snapshot handle between get and set changes what
   is replayed (the two calls are in different classes), other activity does not *)
Example drawn_handle_differs :
  classes 1 [OGet 0; OCall 0 1; ODrawH 0; OSet 0 0; OCall 0 1] = [-1; 1; -1; -1; 4]%Z.
Proof. vm_compute. reflexivity. Qed.

Example quiet_noise_replays :
  classes 1 [OGet 0; OCall 0 1; OGlobal; OMk 3; ODrawH 1; OSet 0 0; OCall 0 1] = [-1; 1; -1; -1; -1; -1; 1]%Z.
Proof. vm_compute. reflexivity. Qed.

(* o < length (objs s) is needed in get_snapshot: an object index out of range never gets a state (the operation
   still draws a seed from the global generator and returns a handle; the invariant is kept, see step_wf) *)
Example get_out_of_range :
  let s' := fst (step sym sym_draw_tagged sym_mk sym_call sym0 (init sym sym0 2) (OGet 5)) in
  obj_state sym sym0 s' 5 = None /\ hand_state sym sym0 s' 0 = Some (FromGlobal 0, 0%nat, []).
Proof. vm_compute. split; reflexivity. Qed.
