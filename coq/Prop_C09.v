(* C09 — random stability: results depend only on seed, model and call history.   PARTIAL (see below)
   Property theorems only (definitions: Rand/Rnd.v).  RandState objects are locations of a heap; the theorems hold for
   EVERY generator (S, draw, mk) and EVERY solve `call d g` that is a function of the call's descriptor and the object's
   generator state alone.  That the real solve is such a function - across processes, hash seeds, unrelated activity and
   diagnostic settings - is not a theorem: the correspondence check runs every history in four differently configured
   processes and requires (1) identical observations, (2) equal values wherever the model's state terms are equal
   (`classes`), (3) no draw from Python's global generator other than the one that derives a default state. *)
From Coq Require Import ZArith List Bool Arith Lia.
From PV Require Import Rand.Rnd Rand.RndProofs.
Import ListNotations.

Section C09.
Variable S : Type.
Variable draw : S -> S * Z.
Variable mk : Z -> S.
Variable call : nat -> S -> S * list Z.
Variable dflt : S.

(* the global generator, the objects' states and the user's handles never share a location, whatever is done *)
Theorem C09_no_sharing : forall g0 n l,
  wf S (init S g0 n) /\ (forall s, wf S s -> wf S (fst (run S draw mk call dflt s l))).
Proof. intros g0 n l. split; [exact (wf_init S g0 n) | intros s; exact (run_wf S draw mk call dflt l s)]. Qed.

(* unrelated activity does not interfere: an operation that is not a call on o / set_randstate on o leaves o's state alone,
   and only a draw from handle h changes h: get_randstate returns an independent snapshot *)
Theorem C09_frame : forall s x o h g g',
  wf S s ->
  (obj_state S dflt s o = Some g -> touches o x = false -> obj_state S dflt (fst (step S draw mk call dflt s x)) o = Some g) /\
  (hand_state S dflt s h = Some g' -> x <> ODrawH h -> hand_state S dflt (fst (step S draw mk call dflt s x)) h = Some g').
Proof.
  intros s x o h g g' Hwf. split.
  - intros H1 H2. exact (obj_frame S draw mk call dflt s x o g Hwf H1 H2).
  - intros H1 H2. exact (hand_frame S draw mk call dflt s x h g' Hwf H1 H2).
Qed.

(* get_randstate: the new handle holds the object's state; set_randstate copies its argument (the handle keeps its state) *)
Theorem C09_snapshot : forall s o, wf S s -> (o < length (objs S s))%nat ->
  let s' := fst (step S draw mk call dflt s (OGet o)) in
  hand_state S dflt s' (length (hands S s)) = obj_state S dflt s' o /\ obj_state S dflt s' o <> None /\
  (forall g, obj_state S dflt s o = Some g -> obj_state S dflt s' o = Some g).
Proof. exact (get_snapshot S draw mk call dflt). Qed.
Theorem C09_restore_copies : forall s o h g, wf S s -> (o < length (objs S s))%nat -> hand_state S dflt s h = Some g ->
  let s' := fst (step S draw mk call dflt s (OSet o h)) in
  obj_state S dflt s' o = Some g /\ hand_state S dflt s' h = Some g.
Proof. exact (set_copies S draw mk call dflt). Qed.

(* the values an object produces are those of its own calls applied to its own state, whatever else happens in between
   (other objects' randomizations, draws from handles and from the global generator, snapshots) *)
Theorem C09_history_only : forall l s o g, wf S s -> obj_state S dflt s o = Some g -> no_set o l ->
  outs_of o l (snd (run S draw mk call dflt s l)) = snd (seq_calls S call (calls_of o l) g) /\
  obj_state S dflt (fst (run S draw mk call dflt s l)) o = Some (fst (seq_calls S call (calls_of o l) g)).
Proof. exact (noise_irrelevant S draw mk call dflt). Qed.

(* restoring a snapshot replays exactly the values that followed it (unrelated operations n1 n2 n3 in between), and the
   snapshot can be used again *)
Theorem C09_restore_replays : forall s o ds n1 n2 n3, wf S s -> (o < length (objs S s))%nat ->
  let h := length (hands S s) in
  quiet o h n1 -> quiet o h n2 -> quiet o h n3 ->
  let l := [OGet o] ++ n1 ++ map (OCall o) ds ++ n2 ++ [OSet o h] ++ n3 ++ map (OCall o) ds in
  exists g1,
    outs_of o l (snd (run S draw mk call dflt s l)) = snd (seq_calls S call ds g1) ++ snd (seq_calls S call ds g1) /\
    hand_state S dflt (fst (run S draw mk call dflt s l)) h = Some g1.
Proof.
  intros s o ds n1 n2 n3 Hwf Ho h Q1 Q2 Q3 l.
  destruct (restore_replays_gen S draw mk call dflt s o ds n1 n2 n3 Hwf Ho Q1 Q2 Q3) as (g1 & _ & _ & _ & Hout & _ & Hh & _).
  exists g1. split; [exact Hout | exact Hh].
Qed.

(* one RandState can seed several objects: they produce the values of the same pure sequence *)
Theorem C09_one_state_many : forall s o1 o2 h g l, wf S s -> o1 <> o2 ->
  (o1 < length (objs S s))%nat -> (o2 < length (objs S s))%nat -> hand_state S dflt s h = Some g ->
  no_set o1 l -> no_set o2 l ->
  let l' := [OSet o1 h; OSet o2 h] ++ l in
  outs_of o1 l' (snd (run S draw mk call dflt s l')) = snd (seq_calls S call (calls_of o1 l) g) /\
  outs_of o2 l' (snd (run S draw mk call dflt s l')) = snd (seq_calls S call (calls_of o2 l) g).
Proof. exact (one_state_many S draw mk call dflt). Qed.

(* without an explicit state, the object's state is derived from one draw of Python's global generator at first use *)
Theorem C09_default_from_global : forall s o, (o < length (objs S s))%nat -> nth o (objs S s) None = None ->
  obj_state S dflt (fst (ensure S draw mk s o dflt)) o = Some (mk (snd (draw (hget S (heap S s) 0 dflt)))).
Proof. exact (default_from_global S draw mk dflt). Qed.
End C09.
Print Assumptions C09_no_sharing.
Print Assumptions C09_frame.
Print Assumptions C09_snapshot.
Print Assumptions C09_restore_copies.
Print Assumptions C09_history_only.
Print Assumptions C09_restore_replays.
Print Assumptions C09_one_state_many.
Print Assumptions C09_default_from_global.

(* non-vacuity on the symbolic instance the check evaluates: call 5 (object 1 seeded from the same RandState) repeats call 2,
   call 9 (after restoring the snapshot taken before call 7) repeats call 7, a global draw in between changes nothing *)
Example C09_example :
  classes 2 [OMk 7; OSet 0 0; OCall 0 1; OCall 0 1; OSet 1 0; OCall 1 1; OGet 0; OCall 0 2; OSet 0 1; OCall 0 2; OCall 1 1; OGlobal; OCall 1 1]
  = [-1; -1; 2; 3; -1; 2; -1; 7; -1; 7; 3; -1; 12]%Z.
Proof. vm_compute. reflexivity. Qed.
