(* C15 — dist and weighted selection follow their weights; zero weight means never.  Property theorems only.
   Probabilities are stated as counts of the equally likely draws r in [1, total]. *)
From Coq Require Import ZArith List Bool.
From PV Require Import Common.Bits Rand.Expr Rand.Select Rand.SelectProofs Rand.Dist Rand.DistProofs.
Import ListNotations.
Open Scope Z_scope.

(* distselect / randselect: index i is selected by exactly ws[i] of the total draws: P(i) = ws[i] / total *)
Theorem C15_distselect_count : forall ws i,
  Forall (fun w => 0 <= w) ws -> (i < length ws)%nat -> count_sel (distselect_at ws) (total ws) i = nth i ws 0.
Proof. exact distselect_count. Qed.
Print Assumptions C15_distselect_count.
(* a zero-weight entry is never selected, and the result is always a valid index *)
Theorem C15_distselect_zero_never : forall ws i r,
  Forall (fun w => 0 <= w) ws -> nth i ws 0 = 0 -> 1 <= r <= total ws -> distselect_at ws r <> Some i.
Proof. exact distselect_zero_never. Qed.
Print Assumptions C15_distselect_zero_never.
Theorem C15_distselect_in_range : forall ws r i,
  Forall (fun w => 0 <= w) ws -> 1 <= r <= total ws -> distselect_at ws r = Some i -> (i < length ws)%nat.
Proof. exact distselect_in_range. Qed.
Print Assumptions C15_distselect_in_range.

(* dist constraints: the entry steering a randomization is chosen with probability weight / total among the non-zero
   weights, and a zero-weight entry is never the target *)
Theorem C15_dist_target_count : forall ws i,
  Forall (fun w => 0 <= w) ws -> (i < length ws)%nat -> count_sel (next_target_at ws) (total ws) i = nth i ws 0.
Proof. exact next_target_count. Qed.
Print Assumptions C15_dist_target_count.
Theorem C15_dist_target_zero_never : forall ws i r,
  Forall (fun w => 0 <= w) ws -> nth i ws 0 = 0 -> next_target_at ws r <> Some i.
Proof. exact next_target_zero_never. Qed.
Print Assumptions C15_dist_target_zero_never.

(* the dist constraint itself: its per-call rewrite (Rand/Dist.v) holds iff the value lies in some listed entry and in no
   entry whose weight is zero - so unlisted values and zero-weight entries are never produced, whatever else constrains the
   field; the entry the value lies in has a non-zero weight; with every weight zero (or no entry) it cannot hold *)
Theorem C15_dist_confines : forall G rho e ws, dist_ok G rho e ws ->
  (holds_all G rho (dist_stmts e ws) = Some true <->
     (exists w, In w ws /\ truth G rho (in_item e (fst w)) = Some true) /\
     (forall w, In w ws -> truth G rho (EBin Eq (snd w) (ELit 0 false 8)) = Some true ->
                truth G rho (in_item e (fst w)) = Some false)).
Proof. exact dist_confines. Qed.
Print Assumptions C15_dist_confines.
Theorem C15_dist_nonzero_support : forall G rho e ws, dist_ok G rho e ws ->
  holds_all G rho (dist_stmts e ws) = Some true ->
  exists w, In w ws /\ truth G rho (in_item e (fst w)) = Some true /\
            truth G rho (EBin Eq (snd w) (ELit 0 false 8)) = Some false.
Proof. exact dist_nonzero_support. Qed.
Print Assumptions C15_dist_nonzero_support.
Theorem C15_dist_all_zero_unsat : forall G rho e ws, dist_ok G rho e ws ->
  (forall w, In w ws -> truth G rho (EBin Eq (snd w) (ELit 0 false 8)) = Some true) ->
  holds_all G rho (dist_stmts e ws) <> Some true.
Proof. exact dist_all_zero_unsat. Qed.
Print Assumptions C15_dist_all_zero_unsat.

(* non-vacuity: an 8-bit field, entries 1 (weight 10), 2..9 (weight in a non-random field = 3), 20 (weight 0) *)
Example C15_dist_example :
  let G := [mkF 8 false; mkF 4 false] in
  let ws := [((ELit 1 true 32, None), ELit 10 true 32); ((ELit 2 true 32, Some (ELit 9 true 32)), EField 1);
             ((ELit 20 true 32, None), ELit 0 true 32)] in
  let at_ := fun v w => holds_all G (fun id : nat => match id with 0%nat => v | _ => w end) (dist_stmts (EField 0) ws) in
  at_ 1 3 = Some true /\ at_ 5 3 = Some true /\ at_ 20 3 = Some false /\ at_ 5 0 = Some false /\ at_ 100 3 = Some false.
Proof. vm_compute. repeat split; reflexivity. Qed.

Example C15_example : map (fun r => distselect_at [5; 0; 2] r) [1; 2; 3; 7] = [Some 2%nat; Some 2%nat; Some 0%nat; Some 0%nat].
Proof. vm_compute. reflexivity. Qed.
