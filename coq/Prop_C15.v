(* C15 — dist and weighted selection follow their weights; zero weight means never.  Property theorems only.
   Probabilities are stated as counts of the equally likely draws r in [1, total]. *)
From Coq Require Import ZArith List Bool.
From PV Require Import Rand.Select Rand.SelectProofs.
Import ListNotations.
Open Scope Z_scope.

(* distselect / randselect: index i is selected by exactly ws[i] of the total draws: P(i) = ws[i] / total *)
Theorem C15_distselect_count : forall ws i,
  Forall (fun w => 0 <= w) ws -> (i < length ws)%nat -> count_sel (distselect_at ws) (total ws) i = nth i ws 0.
Proof. exact distselect_count. Qed.
Print Assumptions C15_distselect_count.
(* a zero-weight entry is never selected, and the result is always a valid index *)
Theorem C15_distselect_zero_never : forall ws i r,
  Forall (fun w => 0 <= w) ws -> nth i ws 0 = 0 -> 1 <= r <= total ws -> distselect_at ws r <> Some i.
Proof. exact distselect_zero_never. Qed.
Print Assumptions C15_distselect_zero_never.
Theorem C15_distselect_in_range : forall ws r i,
  Forall (fun w => 0 <= w) ws -> 1 <= r <= total ws -> distselect_at ws r = Some i -> (i < length ws)%nat.
Proof. exact distselect_in_range. Qed.
Print Assumptions C15_distselect_in_range.

(* dist constraints: the entry steering a randomization is chosen with probability weight / total among the non-zero
   weights, and a zero-weight entry is never the target *)
Theorem C15_dist_target_count : forall ws i,
  Forall (fun w => 0 <= w) ws -> (i < length ws)%nat -> count_sel (next_target_at ws) (total ws) i = nth i ws 0.
Proof. exact next_target_count. Qed.
Print Assumptions C15_dist_target_count.
Theorem C15_dist_target_zero_never : forall ws i r,
  Forall (fun w => 0 <= w) ws -> nth i ws 0 = 0 -> next_target_at ws r <> Some i.
Proof. exact next_target_zero_never. Qed.
Print Assumptions C15_dist_target_zero_never.

Example C15_example : map (fun r => distselect_at [5; 0; 2] r) [1; 2; 3; 7] = [Some 2%nat; Some 2%nat; Some 0%nat; Some 0%nat].
Proof. vm_compute. reflexivity. Qed.
