(* C11 — cross bins count joint hits of their coverpoints.  Property theorems only. *)
From Coq Require Import ZArith List Bool.
From PV Require Import Cov.Rangelist Cov.Partition Cov.Coverpoint Cov.Cross Cov.CrossProofs.
Import ListNotations.
Open Scope Z_scope.

(* one bin per combination: row-major numbering is a bijection between the valid tuples of
   coverpoint bin indices and [0, product of the coverpoints' bin counts) *)
Theorem C11_cross_shape_tuple : forall dims t,
  valid_tuple dims t -> 0 <= cross_index dims t < cross_nbins dims /\ cross_tuple dims (cross_index dims t) = t.
Proof. intros dims t H. split; [exact (cross_index_bounds dims t H) | exact (cross_tuple_index dims t H)]. Qed.
Print Assumptions C11_cross_shape_tuple.

Theorem C11_cross_shape_index : forall dims idx,
  Forall (fun d => 0 < d) dims -> 0 <= idx < cross_nbins dims ->
  valid_tuple dims (cross_tuple dims idx) /\ cross_index dims (cross_tuple dims idx) = idx.
Proof. exact cross_index_tuple. Qed.
Print Assumptions C11_cross_shape_index.

(* the bin a coverpoint contributes to the cross is one of its bins and contains the sampled value;
   there is none exactly when no bin of the coverpoint contains it *)
Theorem C11_key_contains : forall c v k,
  cp_key c v = Some k -> 0 <= k < cp_nbins c /\ contains (nth (Z.to_nat k) (concat c) []) v = true.
Proof. intros c v k H. split; [exact (cp_key_bounds c v k H) | exact (cp_key_contains c v k H)]. Qed.
Print Assumptions C11_key_contains.

Theorem C11_key_none : forall c v,
  cp_key c v = None <-> forallb (fun b => negb (contains b v)) (concat c) = true.
Proof. exact cp_key_none. Qed.
Print Assumptions C11_key_none.

(* no stale marker: what a sample adds to the cross depends on that sample only (its values and iff
   flags), never on the hit markers left in the coverpoints' bins by earlier samples *)
Theorem C11_no_stale_marker : forall cps st s,
  length (st_markers st) = length cps -> length (xs_vals s) = length cps ->
  st_hits (xstep cps st s) =
    match xs_tuple cps s with
    | Some t => incr (st_hits st) (cross_index (map cp_nbins cps) t)
    | None => st_hits st
    end.
Proof. exact xstep_hits. Qed.
Print Assumptions C11_no_stale_marker.

(* for every sequence of samples, cross bin t holds the number of samples on which the cross's iff and
   every coverpoint's iff held and coverpoint j hit its bin t_j *)
Theorem C11_cross_counts : forall cps samples t,
  Forall (fun s => length (xs_vals s) = length cps) samples ->
  valid_tuple (map cp_nbins cps) t ->
  nth (Z.to_nat (cross_index (map cp_nbins cps) t)) (xrun cps samples) 0 = xcount cps samples t.
Proof. exact xrun_counts. Qed.
Print Assumptions C11_cross_counts.

Theorem C11_cross_nbins : forall cps samples,
  Forall (fun s => length (xs_vals s) = length cps) samples ->
  length (xrun cps samples) = Z.to_nat (cross_nbins (map cp_nbins cps)).
Proof. exact xrun_length. Qed.
Print Assumptions C11_cross_nbins.

(* non-vacuity: two coverpoints (bins {1},{2,3} and auto-bins of a 1-bit type), a gated-off sample in between *)
Example C11_example :
  xrun [[[[(1, 1)]]; [[(2, 3)]]]; [[[(0, 0)]; [(1, 1)]]]]
       [mkXS [(1, true); (1, true)] true; mkXS [(1, false); (1, true)] true; mkXS [(3, true); (0, true)] true;
        mkXS [(0, true); (0, true)] true] = [0; 1; 1; 0].
Proof. vm_compute. reflexivity. Qed.
