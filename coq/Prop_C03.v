(* C03 — a call changes only what is random in it; everything else acts as a constant. *)
From Coq Require Import ZArith List Bool.
From PV Require Import Common.Bits Rand.BV Rand.Expr Rand.Lower Rand.Typing Rand.World Rand.WorldProofs Rand.Solve Rand.SolveProofs.
Import ListNotations.
Open Scope Z_scope.

(* the code's marking is the specification: a field is random in a call iff it is the root, or it is declared random
   with rand_mode on and so is every ancestor below the root *)
Theorem C03_used_rand_spec : forall n, leaf_flags true 0 n = spec_flags true true n.
Proof. exact used_rand_spec. Qed.
Print Assumptions C03_used_rand_spec.

(* nothing below a composite that is not random in the call is random *)
Theorem C03_nothing_below_nonrandom : forall n level,
  (forall id b, In (id, b) (leaf_flags false level n) -> b = false) /\
  active_stmts false level n = [] /\ callbacks false level n = [].
Proof. exact nothing_below_nonrandom. Qed.
Print Assumptions C03_nothing_below_nonrandom.

(* the frame: whatever the solver answers, a field that is not random keeps its value *)
Theorem C03_frame : forall G B rho sigma id b,
  nth_error B id = Some b -> fb_rand b = false -> readback G B rho sigma id = rho id.
Proof. exact readback_frame. Qed.
Print Assumptions C03_frame.

(* a non-random field enters the constraints as the constant of its current value *)
Theorem C03_constants_current : forall G B id b,
  nth_error B id = Some b -> fb_rand b = false -> build_field G B id = BConst (fb_val b) (fw G id).
Proof. exact constants_current. Qed.
Print Assumptions C03_constants_current.

(* every leaf gets exactly one flag *)
Theorem C03_every_leaf_flagged : forall r l n, map fst (leaf_flags r l n) = all_leaves n.
Proof. exact leaf_flags_ids. Qed.
Print Assumptions C03_every_leaf_flagged.

(* "random in the call" is decided per call and does not leak: whatever operations came before - calls that returned,
   failed or raised while being prepared or in a callback, list appends, construction - with no call in progress no field
   model is flagged as solved-for or holds a solver node (Rand/Flags.v; the workers read exactly this from the real field
   models after every operation of every scenario); so a field outside the roots of a call is never flagged during it, and an
   element appended between calls starts out as a constant of later calls that only refer to it *)
From PV Require Import Rand.Flags Rand.FlagsProofs.
Theorem C03_no_flag_survives_a_call : forall l, busy (run [] l) = false.
Proof. exact never_busy_between_calls. Qed.
Print Assumptions C03_no_flag_survives_a_call.
Theorem C03_outside_the_call_never_flagged : forall l subtree r j,
  (j < length (run [] l))%nat -> ~ In j subtree -> used (get (in_progress (run [] l) subtree r) j) = false.
Proof. intros l subtree r j. apply outside_the_call_never_flagged. apply run_idle. constructor. Qed.
Print Assumptions C03_outside_the_call_never_flagged.
Theorem C03_appended_element_not_flagged : forall l lst, used (get (run [] (l ++ [OAppend lst])) (length (run [] l))) = false.
Proof. exact appended_element_not_flagged. Qed.
Print Assumptions C03_appended_element_not_flagged.
