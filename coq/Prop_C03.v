(* C03 — a call changes only what is random in it; everything else acts as a constant. *)
From Coq Require Import ZArith List Bool.
From PV Require Import Common.Bits Rand.BV Rand.Expr Rand.Lower Rand.Typing Rand.World Rand.WorldProofs Rand.Solve Rand.SolveProofs.
Import ListNotations.
Open Scope Z_scope.

(* the code's marking is the specification: a field is random in a call iff it is the root, or it is declared random
   with rand_mode on and so is every ancestor below the root *)
Theorem C03_used_rand_spec : forall n, leaf_flags true 0 n = spec_flags true true n.
Proof. exact used_rand_spec. Qed.
Print Assumptions C03_used_rand_spec.

(* nothing below a composite that is not random in the call is random *)
Theorem C03_nothing_below_nonrandom : forall n level,
  (forall id b, In (id, b) (leaf_flags false level n) -> b = false) /\
  active_stmts false level n = [] /\ callbacks false level n = [].
Proof. exact nothing_below_nonrandom. Qed.
Print Assumptions C03_nothing_below_nonrandom.

(* the frame: whatever the solver answers, a field that is not random keeps its value *)
Theorem C03_frame : forall G B rho sigma id b,
  nth_error B id = Some b -> fb_rand b = false -> readback G B rho sigma id = rho id.
Proof. exact readback_frame. Qed.
Print Assumptions C03_frame.

(* a non-random field enters the constraints as the constant of its current value *)
Theorem C03_constants_current : forall G B id b,
  nth_error B id = Some b -> fb_rand b = false -> build_field G B id = BConst (fb_val b) (fw G id).
Proof. exact constants_current. Qed.
Print Assumptions C03_constants_current.

(* every leaf gets exactly one flag *)
Theorem C03_every_leaf_flagged : forall r l n, map fst (leaf_flags r l n) = all_leaves n.
Proof. exact leaf_flags_ids. Qed.
Print Assumptions C03_every_leaf_flagged.
