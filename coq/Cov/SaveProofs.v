(* Proofs about Cov/Save.v: unique instance names, completeness of the saved tree, agreement of the
   report percentages with the in-memory figures. *)
From Coq Require Import ZArith List Bool String QArith Lia ZifyBool.
From PV Require Import Cov.Covergroup Cov.CovergroupProofs Cov.Save.
Import ListNotations.
Open Scope Z_scope.

(* ------------------------------------------------------------------------------------------ *)
(* unique instance names                                                                       *)
(* ------------------------------------------------------------------------------------------ *)
Lemma find_fresh_fresh base seen fuel : forall i n,
  find_fresh base seen i fuel = Some n -> mem_str n seen = false.
Proof.
  induction fuel as [|f IH]; intros i n H; cbn [find_fresh] in H; [discriminate|].
  destruct (mem_str (base ++ "_" ++ string_of_nat i)%string seen) eqn:E.
  - eapply IH. exact H.
  - inversion H. subst. exact E.
Qed.

Lemma inst_name_fresh base seen n : inst_name base seen = Some n -> mem_str n seen = false.
Proof.
  unfold inst_name. destruct (mem_str base seen) eqn:E; intros H.
  - eapply find_fresh_fresh. exact H.
  - inversion H. subst. exact E.
Qed.

Lemma mem_str_cons_false n x seen : mem_str n (x :: seen) = false -> n <> x /\ mem_str n seen = false.
Proof.
  unfold mem_str. cbn [existsb]. intros H. apply orb_false_iff in H. destruct H as [H1 H2].
  split; [|exact H2]. apply String.eqb_neq. exact H1.
Qed.

Lemma inst_names_nodup bases seen names :
  inst_names bases seen = Some names ->
  NoDup names /\ (forall n, In n names -> mem_str n seen = false) /\ List.length names = List.length bases.
Proof.
  revert seen names. induction bases as [|b t IH]; intros seen names H; cbn [inst_names] in H.
  - inversion H. subst. split; [constructor|]. split; [intros n []|reflexivity].
  - destruct (inst_name b seen) as [n|] eqn:En; [|discriminate].
    destruct (inst_names t (n :: seen)) as [rest|] eqn:Er; cbn [option_map] in H; [|discriminate].
    inversion H. subst names. clear H.
    destruct (IH _ _ Er) as [Hnd [Hfresh Hlen]].
    split; [|split].
    + constructor; [|exact Hnd]. intros Hin.
      destruct (mem_str_cons_false _ _ _ (Hfresh n Hin)) as [Hne _]. apply Hne. reflexivity.
    + intros x [Hx|Hx].
      * subst x. eapply inst_name_fresh. exact En.
      * destruct (mem_str_cons_false _ _ _ (Hfresh x Hx)) as [_ Hs]. exact Hs.
    + cbn [List.length]. rewrite Hlen. reflexivity.
Qed.

(* ------------------------------------------------------------------------------------------ *)
(* split_by                                                                                     *)
(* ------------------------------------------------------------------------------------------ *)
Lemma split_by_spec {A} (lens : list nat) : forall (l : list A),
  List.length l = list_sum lens ->
  Forall2 (fun n x => List.length x = n) lens (split_by lens l) /\ List.concat (split_by lens l) = l.
Proof.
  induction lens as [|n t IH]; intros l H; simpl in *.
  - split; [constructor|]. destruct l; [reflexivity|discriminate].
  - destruct (IH (skipn n l)) as [IH1 IH2].
    + rewrite skipn_length. lia.
    + split.
      * constructor; [|exact IH1]. rewrite firstn_length. lia.
      * cbn [List.concat]. rewrite IH2. apply firstn_skipn.
Qed.

Lemma all_inst_bases_length m :
  List.length (all_inst_bases m) = list_sum (map (fun t => List.length (t_insts t)) m).
Proof.
  unfold all_inst_bases. induction m as [|t m IH]; cbn [flat_map map list_sum]; [reflexivity|].
  rewrite app_length, map_length, IH. reflexivity.
Qed.

(* the per-type name lists that [save] hands out *)
Lemma save_per_type m names :
  inst_names (all_inst_bases m) [] = Some names ->
  Forall2 (fun t ns => List.length ns = List.length (t_insts t)) m
          (split_by (map (fun t => List.length (t_insts t)) m) names) /\
  List.concat (split_by (map (fun t => List.length (t_insts t)) m) names) = names.
Proof.
  intros H. destruct (inst_names_nodup _ _ _ H) as [_ [_ Hlen]].
  rewrite all_inst_bases_length in Hlen.
  destruct (split_by_spec _ names Hlen) as [H1 H2]. split; [|exact H2].
  clear -H1. revert H1. generalize (split_by (map (fun t => List.length (t_insts t)) m) names).
  induction m as [|t m IH]; intros l H; cbn [map] in H; inversion H; subst; constructor.
  - assumption.
  - apply IH. assumption.
Qed.

(* what [save] builds from the memory state and the per-type name lists *)
Definition save_type (p : typerec * list string) : rtype :=
  mkRT (save_cg (g_name (t_cg (fst p))) (g_weight (t_cg (fst p))) (t_cg (fst p)))
       (map (fun q : cgrec * string => save_cg (snd q) 1 (fst q)) (combine (t_insts (fst p)) (snd p))).

Lemma save_unfold m r : save m = Some r ->
  exists names, inst_names (all_inst_bases m) [] = Some names /\
    r = map save_type (combine m (split_by (map (fun t => List.length (t_insts t)) m) names)).
Proof.
  unfold save. destruct (inst_names (all_inst_bases m) []) as [names|]; [|discriminate].
  intros H. inversion H. exists names. split; reflexivity.
Qed.

(* ------------------------------------------------------------------------------------------ *)
(* shape                                                                                        *)
(* ------------------------------------------------------------------------------------------ *)
Lemma save_shape m r : save m = Some r ->
  List.length r = List.length m /\
  Forall2 (fun t rt => List.length (rt_insts rt) = List.length (t_insts t) /\
                       rc_name (rt_cg rt) = g_name (t_cg t) /\ rc_weight (rt_cg rt) = g_weight (t_cg t)) m r.
Proof.
  intros H. destruct (save_unfold _ _ H) as [names [Hn Hr]]. subst r.
  destruct (save_per_type _ _ Hn) as [HF _].
  revert HF. generalize (split_by (map (fun t => List.length (t_insts t)) m) names). clear.
  intros pt HF. induction HF as [|t ns m pt Hlen HF IH]; cbn [combine map List.length].
  - split; constructor.
  - destruct IH as [IH1 IH2]. split; [rewrite IH1; reflexivity|].
    constructor; [|exact IH2].
    cbn. rewrite map_length, combine_length. split; [lia|]. split; reflexivity.
Qed.

(* ------------------------------------------------------------------------------------------ *)
(* instance names in the tree                                                                   *)
(* ------------------------------------------------------------------------------------------ *)
Lemma inst_names_of_combine (insts : list cgrec) : forall (ns : list string),
  List.length ns = List.length insts ->
  map rc_name (map (fun q : cgrec * string => save_cg (snd q) 1 (fst q)) (combine insts ns)) = ns.
Proof.
  induction insts as [|g t IH]; intros [|n ns] H; cbn in H; try discriminate; [reflexivity|].
  cbn [combine map]. rewrite IH by lia. reflexivity.
Qed.

Lemma save_inst_names m r : save m = Some r ->
  exists names, inst_names (all_inst_bases m) [] = Some names /\
                flat_map (fun rt => map rc_name (rt_insts rt)) r = names.
Proof.
  intros H. destruct (save_unfold _ _ H) as [names [Hn Hr]]. subst r.
  exists names. split; [exact Hn|].
  destruct (save_per_type _ _ Hn) as [HF Hc]. rewrite <- Hc at 2. clear Hc.
  revert HF. generalize (split_by (map (fun t => List.length (t_insts t)) m) names). clear.
  intros pt HF. induction HF as [|t ns m pt Hlen HF IH]; cbn [combine map flat_map List.concat]; [reflexivity|].
  rewrite IH. f_equal. unfold save_type. cbn [rt_insts fst snd]. apply inst_names_of_combine. exact Hlen.
Qed.

Lemma save_inst_names_nodup m r : save m = Some r -> NoDup (flat_map (fun rt => map rc_name (rt_insts rt)) r).
Proof.
  intros H. destruct (save_inst_names _ _ H) as [names [Hn Hr]]. rewrite Hr.
  destruct (inst_names_nodup _ _ _ Hn) as [Hnd _]. exact Hnd.
Qed.

(* ------------------------------------------------------------------------------------------ *)
(* completeness: the flat view of the tree is the flat view of the memory state                 *)
(* ------------------------------------------------------------------------------------------ *)
Lemma rep_items_save_cg n w g : rep_items (save_cg n w g) = mem_items g.
Proof.
  unfold rep_items, mem_items, save_cg. cbn [rc_items]. rewrite map_map.
  apply map_ext. intros it. reflexivity.
Qed.

Lemma flat_insts_eq ti (insts : list cgrec) : forall (ns : list string) j,
  List.length ns = List.length insts ->
  flat_map (fun q : nat * rcg => flat_items ti (Some (fst q)) (rep_items (snd q)))
           (number j (map (fun q : cgrec * string => save_cg (snd q) 1 (fst q)) (combine insts ns))) =
  flat_map (fun q : nat * cgrec => flat_items ti (Some (fst q)) (mem_items (snd q))) (number j insts).
Proof.
  induction insts as [|g t IH]; intros [|n ns] j H; cbn in H; try discriminate; [reflexivity|].
  cbn [combine map number flat_map fst snd]. rewrite IH by lia. rewrite rep_items_save_cg. reflexivity.
Qed.

Lemma flat_types_eq m pt : Forall2 (fun t ns => List.length ns = List.length (t_insts t)) m pt ->
  forall i,
  flat_map (fun p : nat * rtype =>
     flat_items (fst p) None (rep_items (rt_cg (snd p))) ++
     flat_map (fun q : nat * rcg => flat_items (fst p) (Some (fst q)) (rep_items (snd q))) (number 0 (rt_insts (snd p))))
    (number i (map save_type (combine m pt))) =
  flat_map (fun p : nat * typerec =>
     flat_items (fst p) None (mem_items (t_cg (snd p))) ++
     flat_map (fun q : nat * cgrec => flat_items (fst p) (Some (fst q)) (mem_items (snd q))) (number 0 (t_insts (snd p))))
    (number i m).
Proof.
  intros HF. induction HF as [|t ns m pt Hlen HF IH]; intros i; [reflexivity|].
  cbn [combine map number flat_map fst snd]. rewrite IH. f_equal.
  unfold save_type. cbn [rt_cg rt_insts fst snd].
  rewrite rep_items_save_cg, flat_insts_eq by exact Hlen. reflexivity.
Qed.

Lemma save_complete m r : save m = Some r -> flat_rep r = flat_mem m.
Proof.
  intros H. destruct (save_unfold _ _ H) as [names [Hn Hr]]. subst r.
  destruct (save_per_type _ _ Hn) as [HF _].
  unfold flat_rep, flat_mem. apply flat_types_eq. exact HF.
Qed.

(* ------------------------------------------------------------------------------------------ *)
(* percentages                                                                                  *)
(* ------------------------------------------------------------------------------------------ *)
Lemma filter_map_length {A B} (f : A -> B) (p : B -> bool) l :
  List.length (filter p (map f l)) = List.length (filter (fun x => p (f x)) l).
Proof.
  induction l as [|x t IH]; [reflexivity|]. cbn [map filter].
  destruct (p (f x)); cbn [List.length]; rewrite IH; reflexivity.
Qed.

Lemma bins_cov_item_cov it :
  (bins_cov (i_at_least it) (i_bins it) == item_cov (mkItem (i_at_least it) (i_weight it)) (map snd (i_bins it)))%Q.
Proof.
  unfold bins_cov, item_cov, covered. cbn [it_at_least].
  rewrite filter_map_length, map_length.
  destruct (Z.of_nat (List.length (i_bins it)) <=? 0) eqn:E; [|apply Qeq_refl].
  destruct (i_bins it) as [|b t]; [|cbn [List.length] in E; lia].
  cbn. reflexivity.
Qed.

(* save_item with the cross weight kept (what the database holds); equal to save_item when crosses have weight 1 *)
Definition save_item0 (it : itemrec) : ritem :=
  mkRI (i_name it) (i_is_cross it) (i_weight it) (bins_cov (i_at_least it) (i_bins it))
       (i_bins it) (i_ignore it) (i_illegal it).
Lemma save_item_item0 items :
  Forall (fun it => i_is_cross it = true -> i_weight it = 1) items -> map save_item items = map save_item0 items.
Proof.
  induction items as [|it t IH]; intros H; [reflexivity|]. inversion H as [|? ? H1 H2]; subst.
  cbn [map]. rewrite (IH H2). f_equal. unfold save_item, save_item0.
  destruct (i_is_cross it) eqn:E; [rewrite (H1 eq_refl)|]; reflexivity.
Qed.

Lemma report_div_eq items :
  fold_right (fun it a => r_weight it + a) 0 (map save_item0 items) =
  total_weight (map (fun it => mkItem (i_at_least it) (i_weight it)) items).
Proof.
  induction items as [|it t IH]; [reflexivity|]. cbn [map fold_right]. rewrite IH. reflexivity.
Qed.

Lemma report_num_eq items :
  Forall (fun it => 0 <= i_weight it) items ->
  (fold_right (fun it a =>
     (if r_is_cross it || (0 <? r_weight it) then inject_Z (r_weight it) * r_cov it + a else a)%Q) 0%Q
     (map save_item0 items) ==
   weighted_sum (map (fun it => mkItem (i_at_least it) (i_weight it)) items)
                (map (fun it => map snd (i_bins it)) items))%Q.
Proof.
  intros H. induction H as [|it t Hw Ht IH]; [apply Qeq_refl|].
  cbn [map fold_right]. rewrite ws_cons. cbn [it_weight].
  cbn [save_item0 r_is_cross r_weight r_cov].
  destruct (i_is_cross it || (0 <? i_weight it)) eqn:E.
  - rewrite IH. rewrite (bins_cov_item_cov it). apply Qeq_refl.
  - assert (Hz : i_weight it = 0) by (apply orb_false_iff in E; lia).
    rewrite IH, Hz. cbn [inject_Z]. rewrite Qmult_0_l, Qplus_0_l. apply Qeq_refl.
Qed.

(* with non-negative weights, a zero total weight makes the weighted sum zero *)
Lemma ws_zero items hits :
  Forall (fun it => 0 <= it_weight it) items -> total_weight items = 0 ->
  (weighted_sum items hits == 0)%Q.
Proof.
  intros H. revert hits. induction H as [|it t Hw Ht IH]; intros hits Htw.
  - destruct hits; apply Qeq_refl.
  - destruct hits as [|h hits]; [apply Qeq_refl|].
    rewrite tw_cons in Htw. assert (Hn := tw_nonneg _ Ht).
    assert (Hz : it_weight it = 0) by lia. assert (Hz' : total_weight t = 0) by lia.
    rewrite ws_cons, (IH hits Hz'), Hz. cbn [inject_Z]. rewrite Qmult_0_l, Qplus_0_l. apply Qeq_refl.
Qed.

Lemma report_cov_agrees name w g :
  Forall (fun it => 0 <= i_weight it) (g_items g) ->
  Forall (fun it => i_is_cross it = true -> i_weight it = 1) (g_items g) ->
  (rc_cov (save_cg name w g) == mem_cg_cov g)%Q.
Proof.
  intros H Hx. unfold save_cg, mem_cg_cov, report_cg_cov, cg_cov. cbn [rc_cov].
  rewrite (save_item_item0 _ Hx).
  rewrite report_div_eq.
  set (items := map (fun it => mkItem (i_at_least it) (i_weight it)) (g_items g)).
  assert (Hw : Forall (fun it => 0 <= it_weight it) items).
  { unfold items. apply Forall_map. cbn [it_weight]. exact H. }
  assert (Hn := tw_nonneg _ Hw).
  destruct (0 <? total_weight items) eqn:E.
  - apply Z.ltb_lt in E.
    assert (E' : (total_weight items <=? 0) = false) by (apply Z.leb_gt; exact E). rewrite E'.
    rewrite (report_num_eq _ H). apply Qeq_refl.
  - apply Z.ltb_ge in E.
    assert (E' : (total_weight items <=? 0) = true) by (apply Z.leb_le; exact E). rewrite E'.
    rewrite (report_num_eq _ H). apply ws_zero; [exact Hw|apply Z.le_antisymm; assumption].
Qed.

(* the cross-weight hypothesis is needed: a cross of weight 3 is reported with weight 1 *)
Lemma report_cov_cross_weight_refuted :
  exists g, Forall (fun it => 0 <= i_weight it) (g_items g) /\
            ~ (rc_cov (save_cg "cg"%string 1 g) == mem_cg_cov g)%Q.
Proof.
  exists (mkCg "cg"%string 1 [mkIt "cp"%string false 1 1 [("a"%string, 1); ("b"%string, 0)] [] [];
                             mkIt "x"%string true 3 1 [("<a>"%string, 1)] [] []]).
  split; [repeat constructor; cbn; lia|]. vm_compute. discriminate.
Qed.
