(* Proofs about the coverpoint model (Coverpoint.v). *)
From Coq Require Import ZArith List Bool Lia ZifyBool.
From PV Require Import Cov.Rangelist Cov.RangelistProofs Cov.Partition Cov.PartitionProofs Cov.Coverpoint.
Import ListNotations.
Open Scope Z_scope.

(* ---- small facts ------------------------------------------------------------------------------ *)
Lemma sorted_disjoint_wf l : sorted_disjoint l = true -> forallb wf_range l = true.
Proof.
  induction l as [|a t IH]; intros H; [reflexivity|].
  cbn [sorted_disjoint] in H. cbn [forallb].
  apply andb_true_iff in H as [H H3]. apply andb_true_iff in H as [H1 H2].
  rewrite H1, (IH H3). reflexivity.
Qed.

(* ---- intersect keeps ranges well-formed --------------------------------------------------------- *)
Lemma apply_trims_wf trims : forall cur ins o ins',
  wf_range cur = true -> forallb wf_range ins = true ->
  apply_trims cur ins trims = (o, ins') ->
  forallb wf_range ins' = true /\ (forall c, o = Some c -> wf_range c = true).
Proof.
  induction trims as [|r rest IH]; intros cur ins o ins' Hc Hi H; cbn [apply_trims] in H.
  - inversion H; subst. split; [exact Hi|]. intros c Hc'. inversion Hc'; subst. exact Hc.
  - unfold wf_range in Hc.
    destruct ((fst r <=? fst cur) && (snd cur <=? snd r)) eqn:C1.
    { inversion H; subst. split; [exact Hi|]. intros c Hc'. discriminate. }
    destruct ((fst cur <? fst r) && (snd r <? snd cur)) eqn:C2.
    { apply (IH _ _ _ _) in H; [exact H| |].
      - unfold wf_range. cbn [fst snd]. lia.
      - cbn [forallb]. rewrite Hi. unfold wf_range. cbn [fst snd]. lia. }
    destruct ((fst cur <? fst r) && (fst r <=? snd cur)) eqn:C3.
    { apply (IH _ _ _ _) in H; [exact H| |exact Hi]. unfold wf_range. cbn [fst snd]. lia. }
    destruct ((fst cur <=? snd r) && (snd r <? snd cur)) eqn:C4.
    { apply (IH _ _ _ _) in H; [exact H| |exact Hi]. unfold wf_range. cbn [fst snd]. lia. }
    apply (IH _ _ _ _) in H; [exact H| |exact Hi]. unfold wf_range. lia.
Qed.

Lemma isect_loop_wf fuel : forall work other res,
  forallb wf_range work = true ->
  isect_loop fuel work other = Some res -> forallb wf_range res = true.
Proof.
  induction fuel as [|f IH]; intros work other res Hw H.
  - destruct work; cbn in H; [inversion H; reflexivity|discriminate].
  - destruct work as [|t rest]; cbn [isect_loop] in H; [inversion H; reflexivity|].
    cbn [forallb] in Hw. apply andb_true_iff in Hw as [Hw1 Hw2].
    destruct (apply_trims t [] other) as [o ins] eqn:E.
    destruct (apply_trims_wf other t [] o ins Hw1 eq_refl E) as [A1 A2].
    assert (Hir : forallb wf_range (ins ++ rest) = true).
    { rewrite forallb_app, A1, Hw2. reflexivity. }
    destruct o as [t'|].
    + destruct (isect_loop f (ins ++ rest) other) as [res'|] eqn:E2; [|discriminate].
      inversion H; subst. cbn [forallb]. rewrite (A2 t' eq_refl), (IH _ _ _ Hir E2). reflexivity.
    + exact (IH _ _ _ Hir H).
Qed.

Lemma intersect_wf work other res :
  forallb wf_range work = true -> forallb wf_range other = true ->
  intersect work other = Some res -> forallb wf_range res = true.
Proof.
  unfold intersect. intros Hw _ H.
  destruct work as [|t rest]; [inversion H; reflexivity|].
  destruct other as [|o orest].
  - inversion H; subst. exact Hw.
  - eapply isect_loop_wf; [exact Hw|exact H].
Qed.

(* ---- intersect keeps the list strictly separated ------------------------------------------------ *)
(* x lies below the first range of l *)
Definition lb_gt (x : Z) (l : rlist) : bool := match l with [] => true | b :: _ => x <? fst b end.

Lemma sd_cons a t : sorted_disjoint (a :: t) = wf_range a && lb_gt (snd a) t && sorted_disjoint t.
Proof. reflexivity. Qed.

Lemma lb_gt_mono x y l : x <= y -> lb_gt y l = true -> lb_gt x l = true.
Proof. destruct l as [|b t]; cbn [lb_gt]; [reflexivity|]. lia. Qed.

Lemma lb_gt_app x l1 l2 : lb_gt x l1 = true -> lb_gt x l2 = true -> lb_gt x (l1 ++ l2) = true.
Proof. destruct l1 as [|b t]; cbn [lb_gt app]; auto. Qed.

Lemma sd_app hi l1 : forall l2,
  sorted_disjoint l1 = true -> sorted_disjoint l2 = true ->
  forallb (fun r => snd r <=? hi) l1 = true -> lb_gt hi l2 = true ->
  sorted_disjoint (l1 ++ l2) = true.
Proof.
  induction l1 as [|a t IH]; intros l2 H1 H2 Hb Hl; [exact H2|].
  cbn [app]. rewrite sd_cons in *. cbn [forallb] in Hb.
  apply andb_true_iff in Hb as [Hb1 Hb2].
  apply andb_true_iff in H1 as [H1 H13]. apply andb_true_iff in H1 as [H11 H12].
  rewrite H11, (IH l2 H13 H2 Hb2 Hl).
  assert (lb_gt (snd a) (t ++ l2) = true) as ->; [|reflexivity].
  apply lb_gt_app; [exact H12|]. apply (lb_gt_mono _ hi); [lia|exact Hl].
Qed.

Lemma apply_trims_sorted hi trims : forallb wf_range trims = true -> forall cur ins o ins',
  wf_range cur = true -> sorted_disjoint ins = true -> lb_gt (snd cur) ins = true ->
  forallb (fun r => snd r <=? hi) ins = true -> snd cur <= hi ->
  apply_trims cur ins trims = (o, ins') ->
  sorted_disjoint ins' = true /\ forallb (fun r => snd r <=? hi) ins' = true /\
  exists c, wf_range c = true /\ fst cur <= fst c /\ snd c <= snd cur /\ lb_gt (snd c) ins' = true /\
            (o = None \/ o = Some c).
Proof.
  induction trims as [|r rest IH]; intros Hwf cur ins o ins' Hc Hs Hl Hb Hh H; cbn [apply_trims] in H.
  - inversion H; subst. split; [exact Hs|]. split; [exact Hb|].
    exists cur. repeat split; auto; try lia.
  - cbn [forallb] in Hwf. apply andb_true_iff in Hwf as [Hwr Hwf]. specialize (IH Hwf).
    unfold wf_range in Hc, Hwr.
    destruct ((fst r <=? fst cur) && (snd cur <=? snd r)) eqn:C1.
    { inversion H; subst. split; [exact Hs|]. split; [exact Hb|].
      exists cur. unfold wf_range. repeat split; auto; try lia. }
    destruct ((fst cur <? fst r) && (snd r <? snd cur)) eqn:C2.
    { apply IH in H.
      - destruct H as (R1 & R2 & c & R3 & R4 & R5 & R6 & R7). cbn [fst snd] in *.
        split; [exact R1|]. split; [exact R2|]. exists c. repeat split; auto; try lia.
      - unfold wf_range. cbn [fst snd]. lia.
      - rewrite sd_cons, Hs. cbn [fst snd]. rewrite Hl. unfold wf_range. cbn [fst snd].
        rewrite andb_true_r, andb_true_r. lia.
      - cbn [lb_gt fst snd]. lia.
      - cbn [forallb fst snd]. rewrite Hb. lia.
      - cbn [fst snd]. lia. }
    destruct ((fst cur <? fst r) && (fst r <=? snd cur)) eqn:C3.
    { apply IH in H.
      - destruct H as (R1 & R2 & c & R3 & R4 & R5 & R6 & R7). cbn [fst snd] in *.
        split; [exact R1|]. split; [exact R2|]. exists c. repeat split; auto; try lia.
      - unfold wf_range. cbn [fst snd]. lia.
      - exact Hs.
      - cbn [fst snd]. apply (lb_gt_mono _ (snd cur)); [lia|exact Hl].
      - exact Hb.
      - cbn [fst snd]. lia. }
    destruct ((fst cur <=? snd r) && (snd r <? snd cur)) eqn:C4.
    { apply IH in H.
      - destruct H as (R1 & R2 & c & R3 & R4 & R5 & R6 & R7). cbn [fst snd] in *.
        split; [exact R1|]. split; [exact R2|]. exists c. repeat split; auto; try lia.
      - unfold wf_range. cbn [fst snd]. lia.
      - exact Hs.
      - cbn [fst snd]. exact Hl.
      - exact Hb.
      - cbn [fst snd]. lia. }
    apply IH in H; auto; unfold wf_range; lia.
Qed.

Lemma isect_loop_sorted other : forallb wf_range other = true -> forall fuel work res,
  sorted_disjoint work = true -> isect_loop fuel work other = Some res ->
  sorted_disjoint res = true /\ (forall x, lb_gt x work = true -> lb_gt x res = true).
Proof.
  intros Hwf. induction fuel as [|f IH]; intros work res Hs H.
  - destruct work; cbn in H; [inversion H; auto|discriminate].
  - destruct work as [|t rest]; cbn [isect_loop] in H; [inversion H; auto|].
    rewrite sd_cons in Hs.
    apply andb_true_iff in Hs as [Hs Hs3]. apply andb_true_iff in Hs as [Hs1 Hs2].
    destruct (apply_trims t [] other) as [o ins] eqn:E.
    destruct (apply_trims_sorted (snd t) other Hwf t [] o ins Hs1 eq_refl eq_refl eq_refl ltac:(lia) E)
      as (A1 & A2 & c & A3 & A4 & A5 & A6 & A7).
    assert (Hir : sorted_disjoint (ins ++ rest) = true) by (apply (sd_app (snd t)); assumption).
    assert (Hlb : lb_gt (snd c) (ins ++ rest) = true).
    { apply lb_gt_app; [exact A6|]. apply (lb_gt_mono _ (snd t)); [lia|exact Hs2]. }
    unfold wf_range in A3, Hs1.
    destruct o as [t'|].
    + destruct (isect_loop f (ins ++ rest) other) as [res'|] eqn:E2; [|discriminate].
      inversion H; subst. destruct A7 as [A7|A7]; [discriminate|]. inversion A7; subst.
      destruct (IH _ _ Hir E2) as [I1 I2]. split.
      * rewrite sd_cons, I1, (I2 _ Hlb). unfold wf_range. lia.
      * intros x Hx. cbn [lb_gt] in *. lia.
    + destruct (IH _ _ Hir H) as [I1 I2]. split; [exact I1|].
      intros x Hx. apply I2. cbn [lb_gt] in Hx. apply (lb_gt_mono _ (snd c)); [lia|exact Hlb].
Qed.

Lemma intersect_sorted work other res :
  sorted_disjoint work = true -> forallb wf_range other = true ->
  intersect work other = Some res -> sorted_disjoint res = true.
Proof.
  unfold intersect. intros Hs Hwf H.
  destruct work as [|t rest]; [inversion H; reflexivity|].
  destruct other as [|o orest].
  - inversion H; subst. exact Hs.
  - eapply isect_loop_sorted; [exact Hwf|exact Hs|exact H].
Qed.

(* ---- hit counters -------------------------------------------------------------------------------- *)
Lemma bump_length bins hits s : length hits = length bins -> length (bump bins hits s) = length bins.
Proof.
  intros H. unfold bump. destruct (snd s); [|exact H].
  rewrite map_length, combine_length, H. apply Nat.min_id.
Qed.

Lemma fold_bump_length bins samples : forall hits,
  length hits = length bins -> length (fold_left (bump bins) samples hits) = length bins.
Proof.
  induction samples as [|s t IH]; intros hits H; cbn [fold_left]; [exact H|].
  apply IH, bump_length, H.
Qed.

Lemma zeros_length {A} (l : list A) : length (zeros l) = length l.
Proof. unfold zeros. apply map_length. Qed.

Lemma run_hits_length bins samples : length (run_hits bins samples) = length bins.
Proof. unfold run_hits. apply fold_bump_length, zeros_length. Qed.

Lemma bump_nth bins hits s i :
  length hits = length bins -> (i < length bins)%nat ->
  nth i (bump bins hits s) 0 =
  nth i hits 0 + (if snd s && contains (nth i bins []) (fst s) then 1 else 0).
Proof.
  intros Hl Hi. unfold bump. destruct (snd s) eqn:Es; cbn [andb]; [|lia].
  set (f := fun p : rlist * Z => if contains (fst p) (fst s) then snd p + 1 else snd p).
  assert (Hd : f ([], 0) = 0) by reflexivity.
  rewrite <- Hd at 1. rewrite map_nth.
  rewrite combine_nth by (symmetry; exact Hl).
  unfold f. cbn [fst snd]. clear f Hd. unfold rlist in *. destruct (contains (nth i bins []) (fst s)); lia.
Qed.

Lemma count_in_cons set s t :
  count_in set (s :: t) = (if snd s && contains set (fst s) then 1 else 0) + count_in set t.
Proof.
  unfold count_in. cbn [filter]. destruct (snd s && contains set (fst s)); cbn [length]; lia.
Qed.

Lemma fold_bump_nth bins samples i : forall hits,
  length hits = length bins -> (i < length bins)%nat ->
  nth i (fold_left (bump bins) samples hits) 0 = nth i hits 0 + count_in (nth i bins []) samples.
Proof.
  induction samples as [|s t IH]; intros hits Hl Hi; cbn [fold_left].
  - unfold count_in. cbn. lia.
  - rewrite IH by (auto using bump_length). rewrite bump_nth by assumption.
    rewrite count_in_cons. lia.
Qed.

Lemma zeros_nth {A} (l : list A) i : nth i (zeros l) 0 = 0.
Proof.
  unfold zeros. revert i. induction l as [|a t IH]; intros [|i]; cbn; auto.
Qed.

Lemma sample_counts_lemma bins samples i :
  (i < length bins)%nat ->
  nth i (run_hits bins samples) 0 = count_in (nth i bins []) samples.
Proof.
  intros Hi. unfold run_hits. rewrite fold_bump_nth by (auto using zeros_length).
  rewrite zeros_nth. lia.
Qed.

Lemma bump_outside bins hits s :
  length hits = length bins ->
  (snd s = false \/ forallb (fun b => negb (contains b (fst s))) bins = true) -> bump bins hits s = hits.
Proof.
  intros Hl H. unfold bump. destruct (snd s) eqn:Es; [|reflexivity].
  destruct H as [H|H]; [discriminate|].
  revert hits Hl. induction bins as [|b t IH]; intros hits Hl.
  - destruct hits; [reflexivity|discriminate].
  - destruct hits as [|h hs]; [discriminate|].
    cbn [forallb] in H. apply andb_true_iff in H as [H1 H2].
    cbn [combine map fst snd]. apply negb_true_iff in H1. rewrite H1.
    f_equal. apply IH; [exact H2|]. cbn [length] in Hl. lia.
Qed.

(* ---- value sets ---------------------------------------------------------------------------------- *)
Lemma contains_concat bins v : contains (concat bins) v = existsb (fun b => contains b v) bins.
Proof.
  induction bins as [|b t IH]; cbn [concat existsb]; [reflexivity|].
  rewrite contains_app, IH. reflexivity.
Qed.

Lemma nth_val_ext_contains a b :
  forallb wf_range a = true -> forallb wf_range b = true ->
  (forall k, 0 <= k -> nth_val a k = nth_val b k) -> forall v, contains a v = contains b v.
Proof.
  intros Ha Hb He v. apply eq_true_iff_eq.
  rewrite (contains_nth_val a Ha v), (contains_nth_val b Hb v).
  split; intros (k & Hk & Hn); exists k; (split; [exact Hk|]).
  - rewrite <- He by exact Hk. exact Hn.
  - rewrite He by exact Hk. exact Hn.
Qed.

(* ---- trim ------------------------------------------------------------------------------------------ *)
Lemma trim_spec rl ex r :
  forallb wf_range ex = true -> trim rl ex = Some r ->
  forall v, contains r v = contains rl v && negb (contains ex v).
Proof.
  intros Hwf H v. unfold trim in H. destruct ex as [|e ex']; cbn [is_nil] in H.
  - inversion H; subst. cbn [contains existsb negb]. now rewrite andb_true_r.
  - apply (intersect_ok_lemma _ _ _ Hwf H).
Qed.

Lemma trim_sorted rl ex r :
  sorted_disjoint rl = true -> forallb wf_range ex = true -> trim rl ex = Some r ->
  sorted_disjoint r = true.
Proof.
  intros Hs Hwf H. unfold trim in H. destruct (is_nil ex).
  - inversion H; subst. exact Hs.
  - apply (intersect_sorted _ _ _ Hs Hwf H).
Qed.

(* the trimmed compacted list of a bin specification *)
Lemma trim_compact_spec ex rl r :
  pairwise_disjoint rl = true -> forallb wf_range rl = true -> forallb wf_range ex = true ->
  trim (compact rl) ex = Some r ->
  sorted_disjoint r = true /\ forallb wf_range r = true /\
  forall v, contains r v = contains rl v && negb (contains ex v).
Proof.
  intros Hd Hw He H. destruct (compact_ok_lemma rl Hd Hw) as [C1 C2].
  pose proof (trim_sorted _ _ _ C1 He H) as Hs.
  split; [exact Hs|]. split; [apply sorted_disjoint_wf, Hs|].
  intros v. rewrite (trim_spec _ _ _ He H v), C2. reflexivity.
Qed.

Lemma bin_set_lemma ex rl bins :
  pairwise_disjoint rl = true -> forallb wf_range rl = true -> forallb wf_range ex = true ->
  build_binspec ex (BBin rl) = Some bins ->
  (forall v, existsb (fun b => contains b v) bins = contains rl v && negb (contains ex v)) /\
  (length bins <= 1)%nat.
Proof.
  intros Hd Hw He H. cbn [build_binspec] in H.
  destruct (trim (compact rl) ex) as [r|] eqn:E; [|discriminate].
  destruct (trim_compact_spec ex rl r Hd Hw He E) as (_ & _ & T).
  inversion H; subst. destruct r as [|a t]; cbn [is_nil].
  - split; [|cbn; lia]. intros v. rewrite <- T. reflexivity.
  - split; [|cbn; lia]. intros v. cbn [existsb]. rewrite orb_false_r. apply T.
Qed.

(* mk_collection: what the result looks like whenever there is one *)
Lemma mk_collection_spec rl n bins :
  forallb wf_range rl = true -> mk_collection rl n = Some bins ->
  (forall k, 0 <= k -> nth_val (concat bins) k = nth_val rl k) /\
  (if n <? count rl
   then map count bins = repeat (count rl / n) (Z.to_nat (n - 1)) ++ [count rl - (n - 1) * (count rl / n)]
   else Forall (fun c => c = 1) (map count bins)).
Proof.
  intros Hw H. destruct (n <? count rl) eqn:E.
  - assert (Hn : 1 <= n).
    { unfold mk_collection in H. rewrite E in H. destruct (n <=? 0) eqn:E0; [discriminate|lia]. }
    destruct (mk_collection_partition_lemma rl n Hw Hn ltac:(lia)) as (bins' & M1 & M2 & M3 & _).
    rewrite M1 in H. inversion H; subst. split; assumption.
  - destruct (mk_collection_per_value_lemma rl n Hw ltac:(lia)) as (bins' & M1 & M2 & M3).
    rewrite M1 in H. inversion H; subst. split; assumption.
Qed.

Lemma array_set_lemma ex n rl bins :
  pairwise_disjoint rl = true -> forallb wf_range rl = true -> forallb wf_range ex = true ->
  build_binspec ex (BArray n rl) = Some bins ->
  exists vals,
    sorted_disjoint vals = true /\
    (forall v, contains vals v = contains rl v && negb (contains ex v)) /\
    (forall k, 0 <= k -> nth_val (concat bins) k = nth_val vals k) /\
    match n with
    | None => Forall (fun c => c = 1) (map count bins)
    | Some k =>
      if k <? count vals
      then map count bins = repeat (count vals / k) (Z.to_nat (k - 1)) ++ [count vals - (k - 1) * (count vals / k)]
      else Forall (fun c => c = 1) (map count bins)
    end.
Proof.
  intros Hd Hw He H. cbn [build_binspec] in H.
  destruct (trim (compact rl) ex) as [r|] eqn:E; [|discriminate].
  destruct (trim_compact_spec ex rl r Hd Hw He E) as (T1 & T2 & T3).
  exists r. split; [exact T1|]. split; [exact T3|].
  destruct n as [k|].
  - apply (mk_collection_spec r k bins T2 H).
  - inversion H; subst. apply (per_value_spec r T2).
Qed.

Lemma type_range_wf sg w : 1 <= w -> wf_range (type_range sg w) = true.
Proof.
  intros Hw. unfold type_range, wf_range. destruct sg; cbn [fst snd].
  - assert (0 < 2 ^ (w - 1)) by (apply Z.pow_pos_nonneg; lia). lia.
  - assert (0 < 2 ^ w) by (apply Z.pow_pos_nonneg; lia). lia.
Qed.

Lemma auto_set_lemma c sg w m bins :
  cp_kind c = KAutoInt sg w m -> 1 <= w -> forallb wf_range (exclude_of c) = true ->
  build_regular c = Some bins ->
  exists vals,
    sorted_disjoint vals = true /\
    (forall v, contains vals v = in_range (type_range sg w) v && negb (contains (exclude_of c) v)) /\
    (forall k, 0 <= k -> nth_val (concat bins) k = nth_val vals k) /\
    (if m <? count vals
     then map count bins = repeat (count vals / m) (Z.to_nat (m - 1)) ++ [count vals - (m - 1) * (count vals / m)]
     else Forall (fun c => c = 1) (map count bins)).
Proof.
  intros Hk Hw He H. unfold build_regular in H. rewrite Hk in H.
  destruct (trim [type_range sg w] (exclude_of c)) as [r|] eqn:E; [|discriminate].
  assert (Hs0 : sorted_disjoint [type_range sg w] = true).
  { cbn [sorted_disjoint]. rewrite (type_range_wf sg w Hw). reflexivity. }
  pose proof (trim_sorted _ _ _ Hs0 He E) as Hs.
  exists r. split; [exact Hs|]. split.
  - intros v. rewrite (trim_spec _ _ _ He E v). cbn [contains existsb]. rewrite orb_false_r. reflexivity.
  - apply (mk_collection_spec r m bins (sorted_disjoint_wf r Hs) H).
Qed.

(* ---- the fuel of intersect always suffices -------------------------------------------------------- *)
(* r lies strictly inside p: the only situation in which a trim splits p and adds a range to the work list *)
Definition inside (r p : range) : bool := (fst p <? fst r) && (snd r <? snd p).
(* number of trim ranges that can still split p *)
Fixpoint cnt (l : rlist) (p : range) : nat :=
  match l with [] => O | r :: t => ((if inside r p then 1 else 0) + cnt t p)%nat end.
(* iterations the work list can still cause: every range once, plus once for every future split *)
Fixpoint meas (other work : rlist) : nat :=
  match work with [] => O | p :: t => (S (cnt other p) + meas other t)%nat end.

Lemma meas_app other a b : meas other (a ++ b) = (meas other a + meas other b)%nat.
Proof. induction a as [|p t IH]; cbn [app meas]; [reflexivity|]. rewrite IH. lia. Qed.

Lemma cnt_mono l p q : fst p <= fst q -> snd q <= snd p -> (cnt l q <= cnt l p)%nat.
Proof.
  intros H1 H2. induction l as [|r t IH]; cbn [cnt]; [lia|].
  unfold inside. destruct ((fst q <? fst r) && (snd r <? snd q)) eqn:E1,
    ((fst p <? fst r) && (snd r <? snd p)) eqn:E2; lia.
Qed.

Lemma cnt_split_weak l cur r : forallb wf_range l = true -> wf_range r = true ->
  fst cur < fst r -> snd r < snd cur ->
  (cnt l (snd r + 1, snd cur)%Z + cnt l (fst cur, fst r - 1)%Z <= cnt l cur)%nat.
Proof.
  intros Hl Hr H1 H2. induction l as [|x t IH]; cbn [cnt]; [lia|].
  cbn [forallb] in Hl. apply andb_true_iff in Hl as [Hx Hl]. specialize (IH Hl).
  unfold inside, wf_range in *. cbn [fst snd].
  destruct ((snd r + 1 <? fst x) && (snd x <? snd cur)) eqn:E1,
    ((fst cur <? fst x) && (snd x <? fst r - 1)) eqn:E2,
    ((fst cur <? fst x) && (snd x <? snd cur)) eqn:E3; lia.
Qed.

Lemma cnt_split l cur r : forallb wf_range l = true -> In r l ->
  fst cur < fst r -> snd r < snd cur ->
  (cnt l (snd r + 1, snd cur)%Z + cnt l (fst cur, fst r - 1)%Z + 1 <= cnt l cur)%nat.
Proof.
  intros Hl Hin H1 H2.
  assert (Hr : wf_range r = true) by (rewrite forallb_forall in Hl; apply Hl, Hin).
  induction l as [|x t IH]; [destruct Hin|].
  cbn [forallb] in Hl. apply andb_true_iff in Hl as [Hx Hl]. cbn [cnt].
  destruct Hin as [->|Hin].
  - pose proof (cnt_split_weak t cur r Hl Hr H1 H2) as Hweak.
    unfold inside, wf_range in *. cbn [fst snd].
    destruct ((snd r + 1 <? fst r) && (snd r <? snd cur)) eqn:E1; [lia|].
    destruct ((fst cur <? fst r) && (snd r <? fst r - 1)) eqn:E2; [lia|].
    destruct ((fst cur <? fst r) && (snd r <? snd cur)) eqn:E3; lia.
  - specialize (IH Hl Hin).
    unfold inside, wf_range in *. cbn [fst snd].
    destruct ((snd r + 1 <? fst x) && (snd x <? snd cur)) eqn:E1,
      ((fst cur <? fst x) && (snd x <? fst r - 1)) eqn:E2,
      ((fst cur <? fst x) && (snd x <? snd cur)) eqn:E3; lia.
Qed.

Lemma apply_trims_meas other : forallb wf_range other = true -> forall trims,
  (forall r, In r trims -> In r other) -> forall cur ins o ins',
  apply_trims cur ins trims = (o, ins') ->
  (meas other ins' <= meas other ins + cnt other cur)%nat.
Proof.
  intros Hwf. induction trims as [|r rest IH]; intros Hsub cur ins o ins' H; cbn [apply_trims] in H.
  - inversion H; subst. lia.
  - assert (Hsub' : forall r, In r rest -> In r other) by (intros x Hx; apply Hsub; right; exact Hx).
    specialize (IH Hsub').
    destruct ((fst r <=? fst cur) && (snd cur <=? snd r)) eqn:C1.
    { inversion H; subst. lia. }
    destruct ((fst cur <? fst r) && (snd r <? snd cur)) eqn:C2.
    { apply IH in H. cbn [meas] in H.
      pose proof (cnt_split other cur r Hwf (Hsub r (or_introl eq_refl)) ltac:(lia) ltac:(lia)). lia. }
    destruct ((fst cur <? fst r) && (fst r <=? snd cur)) eqn:C3.
    { apply IH in H.
      pose proof (cnt_mono other cur (fst cur, fst r - 1)) as Hm. cbn [fst snd] in Hm. lia. }
    destruct ((fst cur <=? snd r) && (snd r <? snd cur)) eqn:C4.
    { apply IH in H.
      pose proof (cnt_mono other cur (snd r + 1, snd cur)) as Hm. cbn [fst snd] in Hm. lia. }
    apply IH in H. exact H.
Qed.

Lemma isect_loop_total other : forallb wf_range other = true -> forall fuel work,
  (meas other work <= fuel)%nat -> isect_loop fuel work other <> None.
Proof.
  intros Hwf. induction fuel as [|f IH]; intros work Hm.
  - destruct work as [|t rest]; cbn [isect_loop]; [discriminate|]. cbn [meas] in Hm. lia.
  - destruct work as [|t rest]; cbn [isect_loop]; [discriminate|].
    destruct (apply_trims t [] other) as [o ins] eqn:E.
    pose proof (apply_trims_meas other Hwf other (fun r H => H) t [] o ins E) as Ha.
    cbn [meas] in Ha, Hm.
    assert (Hf : (meas other (ins ++ rest) <= f)%nat) by (rewrite meas_app; lia).
    specialize (IH _ Hf).
    destruct o as [t'|]; [|exact IH].
    destruct (isect_loop f (ins ++ rest) other); [discriminate|exact IH].
Qed.

Lemma cnt_le_length l p : (cnt l p <= length l)%nat.
Proof. induction l as [|r t IH]; cbn [cnt length]; [lia|]. destruct (inside r p); lia. Qed.

Lemma meas_bound other work : (meas other work <= length work * S (length other))%nat.
Proof.
  induction work as [|p t IH]; cbn [meas length]; [lia|].
  pose proof (cnt_le_length other p). lia.
Qed.

(* holds for any work list; sortedness is not needed *)
Lemma intersect_total work other :
  sorted_disjoint work = true -> forallb wf_range other = true -> intersect work other <> None.
Proof.
  intros _ Hwf. unfold intersect.
  destruct work as [|t rest]; [discriminate|].
  destruct other as [|o orest]; [discriminate|].
  apply isect_loop_total; [exact Hwf|].
  pose proof (meas_bound (o :: orest) (t :: rest)) as Hb. unfold intersect_fuel.
  set (lw := length (t :: rest)) in *. set (lo := length (o :: orest)) in *. nia.
Qed.
