(* Executable specification oracle (B) and correspondence comparison (A) for C10.  No proofs. *)
From Coq Require Import ZArith List Bool.
From PV Require Import Cov.Rangelist Cov.Partition Cov.Coverpoint.
Import ListNotations.
Open Scope Z_scope.

Record c10case := mkC10 {
  c_spec : cpspec;
  c_dom : option (Z * Z);        (* the coverpoint type's value range, enumerated by the spec; None = too wide *)
  c_samples : list sample
}.
Definition c10obs := option (list Z * list Z * list Z)%type.   (* hits, ignore hits, illegal hits; None = raised *)

Definition zseq (lo hi : Z) : list Z := map (fun k => lo + Z.of_nat k) (seq 0 (Z.to_nat (hi - lo + 1))).
Definition listed (rl : rlist) (v : Z) : bool := existsb (fun r => (fst r <=? v) && (v <=? snd r)) rl.

(* ---- model prediction ---- *)
Definition c10_model (c : c10case) : c10obs :=
  match cp_build (c_spec c) with
  | None => None
  | Some m => let o := cp_run m (c_samples c) in Some (o_hits o, o_ignore o, o_illegal o)
  end.

(* ---- specification by enumeration of the type's values ---- *)
Fixpoint chunks (fuel : nat) (q : Z) (vals : list Z) : list (list Z) :=   (* fuel bins of q values, then the rest *)
  match fuel with
  | O => [vals]
  | S f => firstn (Z.to_nat q) vals :: chunks f q (skipn (Z.to_nat q) vals)
  end.
Definition partition_spec (vals : list Z) (n : option Z) : option (list (list Z)) :=
  let cnt := Z.of_nat (length vals) in
  match n with
  | None => Some (map (fun v => [v]) vals)
  | Some k =>
    if cnt <=? k then Some (map (fun v => [v]) vals)
    else if k <=? 0 then None
    else Some (chunks (Z.to_nat (k - 1)) (cnt / k) vals)
  end.
Definition spec_sets (c : cpspec) (dom : list Z) : option (list (list Z)) :=
  let excl v := listed (concat (cp_ignore c) ++ concat (cp_illegal c)) v in
  match cp_kind c with
  | KBins bs =>
    concat_opt (map (fun b =>
      match b with
      | BBin rl => let s := filter (fun v => listed rl v && negb (excl v)) dom in
                   Some (if is_nil s then [] else [s])
      | BArray n rl => partition_spec (filter (fun v => listed rl v && negb (excl v)) dom) n
      end) bs)
  | KAutoInt _ _ m => partition_spec (filter (fun v => negb (excl v)) dom) (Some m)
  | KAutoEnum vals => Some (map (fun v => [v]) (filter (fun v => existsb (Z.eqb v) vals && negb (excl v)) dom))
  end.
Definition count_set (set : list Z) (samples : list sample) : Z :=
  Z.of_nat (length (filter (fun s => snd s && existsb (Z.eqb (fst s)) set) samples)).
Definition count_listed (rl : rlist) (samples : list sample) : Z :=
  Z.of_nat (length (filter (fun s => snd s && listed rl (fst s)) samples)).
Definition c10_spec (c : c10case) : option c10obs :=     (* None = no verdict (domain too wide) *)
  match c_dom c with
  | None => None
  | Some (lo, hi) =>
    Some match spec_sets (c_spec c) (zseq lo hi) with
         | None => None
         | Some sets =>
           Some (map (fun s => count_set s (c_samples c)) sets,
                 map (fun rl => count_listed rl (c_samples c)) (filter (fun rl => negb (is_nil rl)) (cp_ignore (c_spec c))),
                 map (fun rl => count_listed rl (c_samples c)) (filter (fun rl => negb (is_nil rl)) (cp_illegal (c_spec c))))
         end
  end.

(* ---- comparison ---- *)
Definition zl_eqb (a b : list Z) : bool :=
  Nat.eqb (length a) (length b) && forallb (fun p => fst p =? snd p) (combine a b).
Definition obs_eqb (a b : c10obs) : bool :=
  match a, b with
  | None, None => true
  | Some (h1, i1, l1), Some (h2, i2, l2) => zl_eqb h1 h2 && zl_eqb i1 i2 && zl_eqb l1 l2
  | _, _ => false
  end.
Definition c10_check (c : c10case) (o : c10obs) : Z :=
  (if obs_eqb (c10_model c) o then 0 else 1) +
  (match c10_spec c with Some s => if obs_eqb s o then 0 else 2 | None => 0 end).
