(* Proofs about the mk_collection model (Partition.v): the bins, read in order, enumerate the value
   list in order without loss or duplication, and their sizes are q,...,q,rest. *)
From Coq Require Import ZArith List Bool Lia ZifyBool.
From PV Require Import Cov.Rangelist Cov.RangelistProofs Cov.Partition.
Import ListNotations.
Open Scope Z_scope.

Lemma count_nonneg rl : forallb wf_range rl = true -> 0 <= count rl.
Proof.
  induction rl as [|r t IH]; cbn [count forallb]; [lia|].
  intros H. apply andb_true_iff in H as [H1 H2]. specialize (IH H2).
  unfold wf_range, rsize in *. lia.
Qed.

Lemma count_app a b : count (a ++ b) = count a + count b.
Proof. induction a as [|r t IH]; cbn [count app]; lia. Qed.

Lemma nth_val_app a : forall b k, forallb wf_range a = true -> 0 <= k ->
  nth_val (a ++ b) k = if k <? count a then nth_val a k else nth_val b (k - count a).
Proof.
  induction a as [|r t IH]; intros b k Hw Hk; cbn [app nth_val count].
  - replace (k - 0) with k by lia. destruct (k <? 0) eqn:E; [lia|reflexivity].
  - cbn [forallb] in Hw. apply andb_true_iff in Hw as [H1 H2].
    pose proof (count_nonneg t H2) as Hc. unfold wf_range, rsize in *.
    destruct (k <? snd r - fst r + 1) eqn:E1.
    + destruct (k <? snd r - fst r + 1 + count t) eqn:E2; [reflexivity|lia].
    + rewrite IH by (auto; lia).
      replace (k - (snd r - fst r + 1 + count t)) with (k - (snd r - fst r + 1) - count t) by lia.
      destruct (k - (snd r - fst r + 1) <? count t) eqn:E2, (k <? snd r - fst r + 1 + count t) eqn:E3;
        try reflexivity; lia.
Qed.

Lemma nth_val_app_ext a x y :
  forallb wf_range a = true ->
  (forall k, 0 <= k -> nth_val x k = nth_val y k) ->
  forall k, 0 <= k -> nth_val (a ++ x) k = nth_val (a ++ y) k.
Proof.
  intros Hw Hxy k Hk. rewrite !nth_val_app by assumption.
  pose proof (count_nonneg a Hw).
  destruct (k <? count a) eqn:E; [reflexivity|]. apply Hxy. lia.
Qed.

Lemma split_vals_spec rl : forall q a b,
  forallb wf_range rl = true -> 0 <= q -> split_vals q rl = (a, b) ->
  (forall k, 0 <= k -> nth_val (a ++ b) k = nth_val rl k) /\
  count a = Z.min q (count rl) /\ count a + count b = count rl /\
  forallb wf_range a = true /\ forallb wf_range b = true.
Proof.
  induction rl as [|r t IH]; intros q a b Hw Hq H; cbn [split_vals] in H.
  - inversion H; subst. cbn. repeat split; auto. lia.
  - cbn [forallb] in Hw. pose proof Hw as Hw0. apply andb_true_iff in Hw as [H1 H2].
    pose proof (count_nonneg t H2) as Hc.
    destruct (q <=? 0) eqn:E0.
    { inversion H; subst. cbn [app count forallb]. unfold wf_range, rsize in *.
      repeat split; auto; lia. }
    destruct (rsize r <=? q) eqn:E1.
    { destruct (split_vals (q - rsize r) t) as [a' b'] eqn:E2. inversion H; subst.
      destruct (IH (q - rsize r) a' b H2 ltac:(lia) E2) as (I1 & I2 & I3 & I4 & I5).
      cbn [app nth_val count forallb]. rewrite I4, H1. repeat split; auto; try lia.
      intros k Hk. destruct (k <? rsize r) eqn:E3; [reflexivity|]. apply I1. lia. }
    inversion H; subst. cbn [app nth_val count forallb fst snd]. unfold wf_range, rsize in *.
    cbn [fst snd]. repeat split; try lia.
    + intros k Hk.
      destruct (k <? fst r + q - 1 - fst r + 1) eqn:A1, (k <? snd r - fst r + 1) eqn:A2;
        try reflexivity; try lia.
      * replace (k - (fst r + q - 1 - fst r + 1)) with (k - q) by lia.
        destruct (k - q <? snd r - (fst r + q) + 1) eqn:A3; [f_equal; lia|lia].
      * replace (k - (fst r + q - 1 - fst r + 1)) with (k - q) by lia.
        destruct (k - q <? snd r - (fst r + q) + 1) eqn:A3; [lia|f_equal; lia].
Qed.

Lemma part_loop_spec n1 : forall q rl,
  forallb wf_range rl = true -> 0 <= q -> Z.of_nat n1 * q <= count rl ->
  (forall k, 0 <= k -> nth_val (concat (part_loop n1 q rl)) k = nth_val rl k) /\
  map count (part_loop n1 q rl) = repeat q n1 ++ [count rl - Z.of_nat n1 * q] /\
  forallb (forallb wf_range) (part_loop n1 q rl) = true.
Proof.
  induction n1 as [|n IH]; intros q rl Hw Hq Hn; cbn [part_loop].
  - cbn [concat map repeat app forallb]. rewrite app_nil_r, Hw. repeat split; auto. f_equal. lia.
  - destruct (split_vals q rl) as [a b] eqn:E.
    destruct (split_vals_spec rl q a b Hw Hq E) as (S1 & S2 & S3 & S4 & S5).
    rewrite Nat2Z.inj_succ in Hn. pose proof (Nat2Z.is_nonneg n) as Hnn.
    assert (Hqle : q <= count rl) by (assert (0 <= Z.of_nat n * q) by (apply Z.mul_nonneg_nonneg; lia); lia).
    assert (Hca : count a = q) by lia.
    destruct (IH q b S5 Hq ltac:(nia)) as (I1 & I2 & I3).
    cbn [concat map repeat app forallb]. rewrite I2, I3, S4, Hca. repeat split; auto.
    + intros k Hk. rewrite <- S1 by assumption. apply nth_val_app_ext; assumption.
    + do 3 f_equal. rewrite Nat2Z.inj_succ. lia.
Qed.

(* one bin per value *)
Lemma per_value_fuel_spec f : forall lo,
  (forall k, 0 <= k -> nth_val (concat (per_value_fuel f lo)) k =
                       if k <? Z.of_nat f then Some (lo + k) else None) /\
  map count (per_value_fuel f lo) = repeat 1 f /\
  forallb wf_range (concat (per_value_fuel f lo)) = true /\
  count (concat (per_value_fuel f lo)) = Z.of_nat f.
Proof.
  induction f as [|f IH]; intros lo; cbn [per_value_fuel concat map repeat].
  - repeat split; try reflexivity. intros k Hk. cbn. destruct (k <? 0) eqn:E; [lia|reflexivity].
  - destruct (IH (lo + 1)) as (I1 & I2 & I3 & I4). rewrite I2.
    cbn [app forallb count]. rewrite I3, I4. unfold rsize, wf_range. cbn [fst snd]. repeat split; try reflexivity; try lia;
      try (f_equal; lia).
    intros k Hk. cbn [app nth_val]. unfold rsize. cbn [fst snd].
    destruct (k <? lo - lo + 1) eqn:E1.
    + destruct (k <? Z.of_nat (S f)) eqn:E2; [reflexivity|lia].
    + rewrite I1 by lia.
      destruct (k - (lo - lo + 1) <? Z.of_nat f) eqn:E2, (k <? Z.of_nat (S f)) eqn:E3;
        try reflexivity; try lia. f_equal. lia.
Qed.

Lemma repeat_Forall {A} (P : A -> Prop) x n : P x -> Forall P (repeat x n).
Proof. intros H. induction n; cbn; constructor; auto. Qed.

Lemma per_value_spec rl : forallb wf_range rl = true ->
  (forall k, 0 <= k -> nth_val (concat (per_value rl)) k = nth_val rl k) /\
  Forall (fun c => c = 1) (map count (per_value rl)).
Proof.
  induction rl as [|r t IH]; intros Hw.
  - split; [reflexivity|constructor].
  - cbn [forallb] in Hw. apply andb_true_iff in Hw as [H1 H2]. destruct (IH H2) as [I1 I2].
    unfold per_value in *. cbn [flat_map].
    change (per_value_range r) with (per_value_fuel (Z.to_nat (rsize r)) (fst r)).
    destruct (per_value_fuel_spec (Z.to_nat (rsize r)) (fst r)) as (P1 & P2 & P3 & P4).
    assert (Hsz : 0 < rsize r) by (unfold wf_range, rsize in *; lia).
    rewrite Z2Nat.id in P1, P4 by lia.
    split.
    + intros k Hk. rewrite concat_app, nth_val_app by assumption. rewrite P4. cbn [nth_val].
      destruct (k <? rsize r) eqn:E; [rewrite P1, E by lia; reflexivity|]. apply I1. lia.
    + rewrite map_app, P2. apply Forall_app. split; [apply repeat_Forall; reflexivity|exact I2].
Qed.

(* membership in a range list = being one of its enumerated values *)
Lemma contains_nth_val rl : forallb wf_range rl = true -> forall v,
  contains rl v = true <-> exists k, 0 <= k /\ nth_val rl k = Some v.
Proof.
  induction rl as [|r t IH]; intros Hw v.
  - cbn. split; [discriminate|]. intros (k & _ & H). discriminate.
  - cbn [forallb] in Hw. apply andb_true_iff in Hw as [H1 H2]. specialize (IH H2 v).
    rewrite contains_cons. cbn [nth_val]. unfold wf_range, rsize, in_range in *. split.
    + intros H. apply orb_true_iff in H as [H|H].
      * exists (v - fst r). split; [lia|]. destruct (v - fst r <? snd r - fst r + 1) eqn:E; [f_equal; lia|lia].
      * apply IH in H as (k & Hk & Hn). exists (k + (snd r - fst r + 1)). split; [lia|].
        destruct (k + (snd r - fst r + 1) <? snd r - fst r + 1) eqn:E; [lia|].
        replace (k + (snd r - fst r + 1) - (snd r - fst r + 1)) with k by lia. exact Hn.
    + intros (k & Hk & Hn). apply orb_true_iff.
      destruct (k <? snd r - fst r + 1) eqn:E.
      * left. inversion Hn; subst. lia.
      * right. apply IH. exists (k - (snd r - fst r + 1)). split; [lia|exact Hn].
Qed.

(* ---- mk_collection ---------------------------------------------------------------------- *)
Lemma mk_collection_partition_lemma rl n :
  forallb wf_range rl = true -> 1 <= n -> n < count rl ->
  exists bins, mk_collection rl n = Some bins /\
    (forall k, 0 <= k -> nth_val (concat bins) k = nth_val rl k) /\
    map count bins = repeat (count rl / n) (Z.to_nat (n - 1)) ++ [count rl - (n - 1) * (count rl / n)] /\
    forallb (forallb wf_range) bins = true.
Proof.
  intros Hw Hn Hlt. unfold mk_collection.
  destruct (n <? count rl) eqn:E1; [|lia]. destruct (n <=? 0) eqn:E2; [lia|].
  eexists. split; [reflexivity|].
  assert (Hq : 0 <= count rl / n) by (apply Z.div_pos; lia).
  assert (Hm : n * (count rl / n) <= count rl) by (apply Z.mul_div_le; lia).
  destruct (part_loop_spec (Z.to_nat (n - 1)) (count rl / n) rl Hw Hq) as (P1 & P2 & P3).
  { rewrite Z2Nat.id by lia. nia. }
  rewrite Z2Nat.id in P2 by lia. repeat split; assumption.
Qed.

Lemma mk_collection_per_value_lemma rl n :
  forallb wf_range rl = true -> count rl <= n ->
  exists bins, mk_collection rl n = Some bins /\
    (forall k, 0 <= k -> nth_val (concat bins) k = nth_val rl k) /\
    Forall (fun c => c = 1) (map count bins).
Proof.
  intros Hw Hn. unfold mk_collection. destruct (n <? count rl) eqn:E1; [lia|].
  eexists. split; [reflexivity|]. apply per_value_spec, Hw.
Qed.
