(* Model of visitors/coverage_save_visitor.py (what is written into the UCIS database for every
   covergroup type, instance, coverpoint, cross and bin) and of the percentage arithmetic of PyUCIS's
   CoverageReportBuilder, which produces the report model from that database.
   Executable definitions only. *)
From Coq Require Import ZArith List Bool String QArith DecimalString.
From PV Require Import Cov.Covergroup.
Import ListNotations.
Open Scope Z_scope.

(* in-memory coverage state, as the getters of the covergroup models expose it *)
Definition binrec := (string * Z)%type.                      (* name, hit count *)
Record itemrec := mkIt {
  i_name : string; i_is_cross : bool; i_weight : Z; i_at_least : Z;
  i_bins : list binrec; i_ignore : list binrec; i_illegal : list binrec
}.
Record cgrec := mkCg { g_name : string; g_weight : Z; g_items : list itemrec }.   (* g_name: typename / instance base name *)
Record typerec := mkTyR { t_cg : cgrec; t_insts : list cgrec }.
Definition memstate := list typerec.

(* the report tree *)
Record ritem := mkRI {
  r_name : string; r_is_cross : bool; r_weight : Z; r_cov : Q;
  r_bins : list binrec; r_ignore : list binrec; r_illegal : list binrec
}.
Record rcg := mkRC { rc_name : string; rc_weight : Z; rc_cov : Q; rc_items : list ritem }.
Record rtype := mkRT { rt_cg : rcg; rt_insts : list rcg }.

(* ---- get_cg_instname: unique instance names over the whole database ---- *)
Definition string_of_nat (n : nat) : string := NilEmpty.string_of_uint (Nat.to_uint n).
Definition mem_str (s : string) (l : list string) : bool := existsb (String.eqb s) l.
Fixpoint find_fresh (base : string) (seen : list string) (i : nat) (fuel : nat) : option string :=
  match fuel with
  | O => None
  | S f =>
    let cand := (base ++ "_" ++ string_of_nat i)%string in
    if mem_str cand seen then find_fresh base seen (S i) f else Some cand
  end.
(* None = more than 999 collisions (the code then reuses the base name) *)
Definition inst_name (base : string) (seen : list string) : option string :=
  if mem_str base seen then find_fresh base seen 1 999 else Some base.
Fixpoint inst_names (bases : list string) (seen : list string) : option (list string) :=
  match bases with
  | [] => Some []
  | b :: t =>
    match inst_name b seen with
    | None => None
    | Some n => option_map (cons n) (inst_names t (n :: seen))
    end
  end.

(* ---- percentages as CoverageReportBuilder computes them from the database ---- *)
Definition bins_cov (at_least : Z) (bins : list binrec) : Q :=
  let total := Z.of_nat (List.length bins) in
  if total <=? 0 then 0%Q
  else (100 * Z.of_nat (List.length (filter (fun b => at_least <=? snd b) bins))) # (Z.to_pos total).
Definition report_cg_cov (items : list ritem) : Q :=
  let num := fold_right (fun it a =>
               (if r_is_cross it || (0 <? r_weight it) then inject_Z (r_weight it) * r_cov it + a else a)%Q) 0%Q items in
  let div := fold_right (fun it a => r_weight it + a) 0 items in
  if 0 <? div then (num / inject_Z div)%Q else num.

(* PyUCIS's CoverageReportBuilder.build_cross never reads the weight of a cross scope: in the report tree a
   cross always has the default weight 1 (the database itself holds the real weight) *)
Definition save_item (it : itemrec) : ritem :=
  mkRI (i_name it) (i_is_cross it) (if i_is_cross it then 1 else i_weight it) (bins_cov (i_at_least it) (i_bins it))
       (i_bins it) (i_ignore it) (i_illegal it).
Definition save_cg (name : string) (weight : Z) (g : cgrec) : rcg :=
  let items := map save_item (g_items g) in mkRC name weight (report_cg_cov items) items.

(* all instances of all types, in visit order (types in registry order, each type's instances in creation order) *)
Definition all_inst_bases (m : memstate) : list string := flat_map (fun t => map g_name (t_insts t)) m.
Fixpoint split_by {A} (lens : list nat) (l : list A) : list (list A) :=
  match lens with [] => [] | n :: t => firstn n l :: split_by t (skipn n l) end.
Definition save (m : memstate) : option (list rtype) :=
  match inst_names (all_inst_bases m) [] with
  | None => None
  | Some names =>
    let per_type := split_by (map (fun t => List.length (t_insts t)) m) names in
    Some (map (fun p : typerec * list string =>
                 mkRT (save_cg (g_name (t_cg (fst p))) (g_weight (t_cg (fst p))) (t_cg (fst p)))
                      (map (fun q : cgrec * string => save_cg (snd q) 1 (fst q)) (combine (t_insts (fst p)) (snd p))))
              (combine m per_type))
  end.

(* flat view: every bin with the path that leads to it *)
Definition path := (nat * option nat * string * Z)%type.   (* type index, instance index, item name, kind 0/1/2 *)
Definition flat_items (ti : nat) (ii : option nat) (items : list (string * list binrec * list binrec * list binrec))
  : list (path * binrec) :=
  flat_map (fun it => let '(n, b, ig, il) := it in
     map (fun x => ((ti, ii, n, 0), x)) b ++ map (fun x => ((ti, ii, n, 1), x)) ig ++ map (fun x => ((ti, ii, n, 2), x)) il) items.
Definition mem_items (g : cgrec) := map (fun it => (i_name it, i_bins it, i_ignore it, i_illegal it)) (g_items g).
Definition rep_items (g : rcg) := map (fun it => (r_name it, r_bins it, r_ignore it, r_illegal it)) (rc_items g).
Fixpoint number {A} (i : nat) (l : list A) : list (nat * A) :=
  match l with [] => [] | x :: t => (i, x) :: number (S i) t end.
Definition flat_mem (m : memstate) : list (path * binrec) :=
  flat_map (fun p : nat * typerec =>
     flat_items (fst p) None (mem_items (t_cg (snd p))) ++
     flat_map (fun q : nat * cgrec => flat_items (fst p) (Some (fst q)) (mem_items (snd q))) (number 0 (t_insts (snd p))))
    (number 0 m).
Definition flat_rep (r : list rtype) : list (path * binrec) :=
  flat_map (fun p : nat * rtype =>
     flat_items (fst p) None (rep_items (rt_cg (snd p))) ++
     flat_map (fun q : nat * rcg => flat_items (fst p) (Some (fst q)) (rep_items (snd q))) (number 0 (rt_insts (snd p))))
    (number 0 r).

(* the in-memory coverage figure of a covergroup (Covergroup.cg_cov) from a cgrec *)
Definition mem_cg_cov (g : cgrec) : Q :=
  cg_cov (map (fun it => mkItem (i_at_least it) (i_weight it)) (g_items g))
         (map (fun it => map snd (i_bins it)) (g_items g)).
