(* Model of impl/coverage_registry.py (register_cg), CovergroupModel.sample's propagation to the type
   covergroup, and the coverage arithmetic of CoverpointModel / CoverpointCrossModel / CovergroupModel
   (at_least, weight).  Executable definitions only.
   An item is a coverpoint or a cross; what a sample does to the items of the sampled instance (which
   bins it increments) is the business of C10/C11 and enters here as data. *)
From Coq Require Import ZArith List Bool QArith.
From PV Require Import Cov.Rangelist Cov.Partition Cov.Coverpoint Cov.Cross.
Import ListNotations.
Open Scope Z_scope.

Record item := mkItem { it_at_least : Z; it_weight : Z }.

(* the structure CovergroupModel.equals compares: the bin models of every coverpoint, and which
   coverpoints every cross crosses (as indices into the coverpoint list) *)
(* sh_tags: per coverpoint, per bin model, the kind of object the code builds for it (see CovergroupCheck.tag_of):
   equals() compares classes, not just value sets *)
Record shape := mkSh { sh_cps : list cpm; sh_tags : list (list Z); sh_crosses : list (list nat) }.
Definition range_eqb (a b : range) : bool := (fst a =? fst b) && (snd a =? snd b).
Fixpoint list_eqb {A} (eqb : A -> A -> bool) (a b : list A) : bool :=
  match a, b with
  | [], [] => true
  | x :: s, y :: t => eqb x y && list_eqb eqb s t
  | _, _ => false
  end.
Definition shape_eqb (a b : shape) : bool :=
  list_eqb (list_eqb (list_eqb (list_eqb range_eqb))) (sh_cps a) (sh_cps b) &&
  list_eqb (list_eqb Z.eqb) (sh_tags a) (sh_tags b) &&
  list_eqb (list_eqb Nat.eqb) (sh_crosses a) (sh_crosses b).
(* number of bins of every item: coverpoints first, then crosses (product of the crossed coverpoints' bins) *)
Definition shape_nbins (sh : shape) : list Z :=
  map cp_nbins (sh_cps sh) ++
  map (fun x => cross_nbins (map (fun j => cp_nbins (nth j (sh_cps sh) [])) x)) (sh_crosses sh).

Record cgtype := mkTy { ty_name : Z; ty_shape : shape; ty_items : list item; ty_hits : list (list Z) }.
Record cginst := mkIn { in_name : Z; in_shape : shape; in_type : nat; in_items : list item; in_hits : list (list Z) }.
Record reg := mkReg { types : list cgtype; insts : list cginst }.

Inductive op :=
| New (typename : Z) (sh : shape) (items : list item)   (* items: options of the coverpoints then of the crosses *)
| Sample (k : nat) (deltas : list (list Z)).            (* per item of instance k: the bins incremented *)

Fixpoint find_type (name : Z) (sh : shape) (ts : list cgtype) (i : nat) : option nat :=
  match ts with
  | [] => None
  | t :: r => if (ty_name t =? name) && shape_eqb (ty_shape t) sh then Some i else find_type name sh r (S i)
  end.

Definition zero_hits (nbins : list Z) : list (list Z) := map (fun n => repeat 0 (Z.to_nat n)) nbins.

Fixpoint incr_all (hits : list Z) (idxs : list Z) : list Z :=
  match idxs with [] => hits | i :: t => incr_all (incr hits i) t end.
Definition apply_deltas (hits : list (list Z)) (deltas : list (list Z)) : list (list Z) :=
  map (fun p => incr_all (fst p) (snd p)) (combine hits deltas).

Fixpoint update {A} (l : list A) (k : nat) (f : A -> A) : list A :=
  match l, k with
  | [], _ => []
  | x :: t, O => f x :: t
  | x :: t, S k' => x :: update t k' f
  end.

Definition step (r : reg) (o : op) : reg :=
  match o with
  | New name sh items =>
    let z := zero_hits (shape_nbins sh) in
    match find_type name sh (types r) 0 with
    | Some ti => mkReg (types r) (insts r ++ [mkIn name sh ti items z])
    | None =>
      (* a clone of the instance becomes the type: it keeps the first instance's options *)
      mkReg (types r ++ [mkTy name sh items z]) (insts r ++ [mkIn name sh (length (types r)) items z])
    end
  | Sample k deltas =>
    match nth_error (insts r) k with
    | None => r
    | Some ins =>
      (* missing entries of deltas = nothing hit *)
      let d := deltas ++ repeat [] (length (in_hits ins) - length deltas) in
      mkReg (update (types r) (in_type ins)
                    (fun t => mkTy (ty_name t) (ty_shape t) (ty_items t) (apply_deltas (ty_hits t) d)))
            (update (insts r) k
                    (fun i => mkIn (in_name i) (in_shape i) (in_type i) (in_items i) (apply_deltas (in_hits i) d)))
    end
  end.
Definition run (ops : list op) : reg := fold_left step ops (mkReg [] []).

(* sum over the instances attached to type ti of the hits of bin b of item j *)
Definition sum_over (r : reg) (ti : nat) (j b : nat) : Z :=
  fold_right (fun i a => (if Nat.eqb (in_type i) ti then nth b (nth j (in_hits i) []) 0 else 0) + a) 0 (insts r).

(* ---- coverage arithmetic (exact rationals; the code rounds the covergroup figure to 4 decimals) ---- *)
Definition covered (at_least : Z) (hits : list Z) : Z :=
  Z.of_nat (length (filter (fun h => at_least <=? h) hits)).
(* coverpoint / cross coverage in percent *)
Definition item_cov (it : item) (hits : list Z) : Q :=
  (100 * covered (it_at_least it) hits) # (Z.to_pos (Z.of_nat (length hits))).
Definition total_weight (items : list item) : Z := fold_right (fun it a => it_weight it + a) 0 items.
Definition weighted_sum (items : list item) (hits : list (list Z)) : Q :=
  fold_right (fun p a => (inject_Z (it_weight (fst p)) * item_cov (fst p) (snd p) + a)%Q) 0%Q (combine items hits).
Definition cg_cov (items : list item) (hits : list (list Z)) : Q :=
  if total_weight items <=? 0 then 0%Q
  else (weighted_sum items hits / inject_Z (total_weight items))%Q.
