(* Model of CoverpointCrossModel (_build_hit_map, sample), the per-bin-model hit markers that the
   cross reads (hit_bin_idx of the coverpoint's bin models) and CovergroupModel.sample's order.
   Executable definitions only. *)
From Coq Require Import ZArith List Bool.
From PV Require Import Cov.Rangelist Cov.Partition Cov.Coverpoint.
Import ListNotations.
Open Scope Z_scope.

(* a coverpoint as the cross sees it: its bin models in order, each a list of flat bins *)
Definition binmodel := list rlist.
Definition cpm := list binmodel.

(* hit_bin_idx of one bin model after sampling v: the last flat bin containing v (collection: last
   hit wins; an array or a single bin has at most one) ; None = -1 *)
Fixpoint last_hit (i : Z) (bins : list rlist) (v : Z) (acc : option Z) : option Z :=
  match bins with
  | [] => acc
  | b :: t => last_hit (i + 1) t v (if contains b v then Some i else acc)
  end.
Definition model_hit (m : binmodel) (v : Z) : option Z := last_hit 0 m v None.

(* markers of a coverpoint: one per bin model *)
Definition markers := list (option Z).
Definition cp_sample_markers (c : cpm) (v : Z) : markers := map (fun m => model_hit m v) c.

(* what the cross computes from the markers: first bin model with a marker, offset by the bins before it *)
Fixpoint key_of (c : cpm) (mk : markers) (off : Z) : option Z :=
  match c, mk with
  | m :: ct, k :: kt =>
    match k with
    | Some i => Some (off + i)
    | None => key_of ct kt (off + Z.of_nat (length m))
    end
  | _, _ => None
  end.
Definition cp_nbins (c : cpm) : Z := fold_right (fun m a => Z.of_nat (length m) + a) 0 c.

(* row-major index of a tuple of per-coverpoint bin indices *)
Fixpoint cross_index (dims : list Z) (t : list Z) : Z :=
  match dims, t with
  | d :: ds, k :: ks => k * fold_right Z.mul 1 ds + cross_index ds ks
  | _, _ => 0
  end.
Fixpoint cross_tuple (dims : list Z) (idx : Z) : list Z :=
  match dims with
  | [] => []
  | d :: ds => let p := fold_right Z.mul 1 ds in (idx / p) :: cross_tuple ds (idx mod p)
  end.
Definition cross_nbins (dims : list Z) : Z := fold_right Z.mul 1 dims.

(* one covergroup sample: per coverpoint (value, iff), and the cross's own iff *)
Record xsample := mkXS { xs_vals : list (Z * bool); xs_iff : bool }.

(* state: markers of every coverpoint (persist between samples!) and the cross hit counters *)
Record xstate := mkXSt { st_markers : list markers; st_hits : list Z }.

Fixpoint incr (hits : list Z) (i : Z) : list Z :=
  match hits with
  | [] => []
  | h :: t => if i =? 0 then (h + 1) :: t else h :: incr t (i - 1)
  end.

Fixpoint all_some_z (l : list (option Z)) : option (list Z) :=
  match l with
  | [] => Some []
  | None :: _ => None
  | Some x :: t => match all_some_z t with Some r => Some (x :: r) | None => None end
  end.

Definition xstep (cps : list cpm) (st : xstate) (s : xsample) : xstate :=
  (* CoverpointModel.sample: bin models are sampled (markers refreshed) only when the coverpoint's iff holds *)
  let mks := map (fun p : cpm * markers * (Z * bool) =>
                    if snd (snd p) then cp_sample_markers (fst (fst p)) (fst (snd p)) else snd (fst p))
                 (combine (combine cps (st_markers st)) (xs_vals s)) in
  (* CoverpointCrossModel.sample *)
  let keys := map (fun p : cpm * markers * (Z * bool) =>
                     if snd (snd p) then key_of (fst (fst p)) (snd (fst p)) 0 else None)
                  (combine (combine cps mks) (xs_vals s)) in
  let hits :=
    if xs_iff s then
      match all_some_z keys with
      | Some t => incr (st_hits st) (cross_index (map cp_nbins cps) t)
      | None => st_hits st
      end
    else st_hits st in
  mkXSt mks hits.

Definition xinit (cps : list cpm) : xstate :=
  mkXSt (map (fun c => map (fun _ => None) c) cps)
        (map (fun _ => 0) (seq 0 (Z.to_nat (cross_nbins (map cp_nbins cps))))).
Definition xrun (cps : list cpm) (samples : list xsample) : list Z :=
  st_hits (fold_left (xstep cps) samples (xinit cps)).

(* ---- specification: stateless ---- *)
(* the flat bin of coverpoint c that value v hits, as the cross defines it *)
Definition cp_key (c : cpm) (v : Z) : option Z := key_of c (cp_sample_markers c v) 0.
Definition xs_tuple (cps : list cpm) (s : xsample) : option (list Z) :=
  if xs_iff s then
    all_some_z (map (fun p : cpm * (Z * bool) => if snd (snd p) then cp_key (fst p) (fst (snd p)) else None) (combine cps (xs_vals s)))
  else None.
Definition tuple_eqb (a b : list Z) : bool :=
  Nat.eqb (length a) (length b) && forallb (fun p => fst p =? snd p) (combine a b).
Definition xcount (cps : list cpm) (samples : list xsample) (t : list Z) : Z :=
  Z.of_nat (length (filter (fun s => match xs_tuple cps s with Some u => tuple_eqb u t | None => false end) samples)).

(* ---- building the bin models of a coverpoint specification (grouped version of build_regular) ---- *)
Fixpoint seq_opt {A} (l : list (option A)) : option (list A) :=
  match l with
  | [] => Some []
  | None :: _ => None
  | Some x :: t => match seq_opt t with Some r => Some (x :: r) | None => None end
  end.
Definition cp_models (c : cpspec) : option cpm :=
  let ex := exclude_of c in
  match cp_kind c with
  | KBins bs => option_map (filter (fun m => negb (is_nil m))) (seq_opt (map (build_binspec ex) bs))
  | KAutoInt sg w m =>
    match trim [type_range sg w] ex with
    | Some r => option_map (fun b => [b]) (mk_collection r m)
    | None => None
    end
  | KAutoEnum vals =>
    match trim (compact (map (fun v => (v, v)) vals)) ex with
    | Some r => Some (map (fun x => [[(fst x, fst x)]]) r)
    | None => None
    end
  end.
