(* Model of src/vsc/model/rangelist_model.py (RangelistModel): range lists over Z.
   Executable definitions only; proofs are in RangelistProofs.v. *)
From Coq Require Import ZArith List Bool.
Import ListNotations.
Open Scope Z_scope.

Definition range := (Z * Z)%type.
Definition rlist := list range.

Definition in_range (r : range) (v : Z) : bool := (fst r <=? v) && (v <=? snd r).
(* RangelistModel.__contains__ *)
Definition contains (rl : rlist) (v : Z) : bool := existsb (fun r => in_range r v) rl.
Definition rsize (r : range) : Z := snd r - fst r + 1.
(* number of values (mk_collection's n_values loop) *)
Fixpoint count (rl : rlist) : Z :=
  match rl with [] => 0 | r :: t => rsize r + count t end.

(* list.sort(key=lambda e: e[0]) : stable insertion sort on the low bound *)
Fixpoint insert (r : range) (l : rlist) : rlist :=
  match l with
  | [] => [r]
  | h :: t => if fst r <? fst h then r :: h :: t else h :: insert r t
  end.
(* left-to-right insertion, an element goes after the elements with an equal key: stable *)
Definition sort (l : rlist) : rlist := fold_left (fun acc r => insert r acc) l [].

(* RangelistModel.compact: the while loop after the sort.  Every iteration shortens the part of the
   list still to be looked at by one, so the list's own length is enough fuel. *)
Fixpoint compact_loop (fuel : nat) (l : rlist) : rlist :=
  match fuel with
  | O => l
  | S f =>
    match l with
    | a :: b :: t =>
      if fst b <=? fst a then compact_loop f (b :: t)                       (* pop(i) *)
      else if snd b <=? snd a then compact_loop f ((fst a, fst b) :: t)     (* hi := next.lo; pop(i+1) *)
      else a :: compact_loop f (b :: t)
    | _ => l
    end
  end.
Definition compact (l : rlist) : rlist := let s := sort l in compact_loop (length s) s.

(* RangelistModel._intersect applied to one target range for every trim range in turn (the inner
   `for r in other.range_l`), on the repaired code: the loop stops as soon as the target has been
   removed.  Result: what is left of the target (None = removed) and the upper parts split off,
   in the order in which they end up in the list (each is inserted right behind the target). *)
Fixpoint apply_trims (cur : range) (ins : rlist) (trims : rlist) : option range * rlist :=
  match trims with
  | [] => (Some cur, ins)
  | r :: rest =>
    if (fst r <=? fst cur) && (snd cur <=? snd r) then (None, ins)
    else if (fst cur <? fst r) && (snd r <? snd cur) then
      apply_trims (fst cur, fst r - 1) ((snd r + 1, snd cur) :: ins) rest
    else if (fst cur <? fst r) && (fst r <=? snd cur) then
      apply_trims (fst cur, fst r - 1) ins rest
    else if (fst cur <=? snd r) && (snd r <? snd cur) then
      apply_trims (snd r + 1, snd cur) ins rest
    else apply_trims cur ins rest
  end.

(* RangelistModel.intersect: the outer while loop. None = fuel exhausted (excluded by the theorems). *)
Fixpoint isect_loop (fuel : nat) (work other : rlist) : option rlist :=
  match work with
  | [] => Some []
  | t :: rest =>
    match fuel with
    | O => None
    | S f =>
      match apply_trims t [] other with
      | (None, ins) => isect_loop f (ins ++ rest) other
      | (Some t', ins) =>
        match isect_loop f (ins ++ rest) other with
        | Some res => Some (t' :: res)
        | None => None
        end
      end
    end
  end.
Definition intersect_fuel (work other : rlist) : nat :=
  (length work + (length work + 1) * (length other + 1) + 1)%nat.
Definition intersect (work other : rlist) : option rlist :=
  match work, other with
  | [], _ => Some work
  | _, [] => Some work
  | _, _ => isect_loop (intersect_fuel work other) work other
  end.

(* well-formedness predicates used by the theorems *)
Definition wf_range (r : range) : bool := fst r <=? snd r.
Definition disjoint2 (a b : range) : bool := (snd a <? fst b) || (snd b <? fst a).
Fixpoint pairwise_disjoint (l : rlist) : bool :=
  match l with [] => true | a :: t => forallb (disjoint2 a) t && pairwise_disjoint t end.
Fixpoint sorted_disjoint (l : rlist) : bool :=
  match l with
  | [] => true
  | a :: t => wf_range a && match t with [] => true | b :: _ => snd a <? fst b end && sorted_disjoint t
  end.
