(* Executable specification oracle (B) and correspondence comparison (A) for C11.  No proofs. *)
From Coq Require Import ZArith List Bool String Ascii.
From PV Require Import Cov.Rangelist Cov.Partition Cov.Coverpoint Cov.Cross.
Import ListNotations.
Open Scope Z_scope.

Record c11case := mkC11 {
  x_cps : list cpspec;          (* the crossed coverpoints *)
  x_samples : list xsample
}.
(* observation: per coverpoint (number of bins, bin names), cross (number of bins, names),
   per sample: per coverpoint the flat bins incremented, and the cross bins incremented *)
Record c11obs := mkO11 {
  ob_cp_names : list (list string);
  ob_x_names : list string;
  ob_cp_deltas : list (list (list Z));
  ob_x_deltas : list (list Z)
}.

Definition zl_eqb (a b : list Z) : bool :=
  Nat.eqb (List.length a) (List.length b) && forallb (fun p => fst p =? snd p) (combine a b).
Definition zll_eqb (a b : list (list Z)) : bool :=
  Nat.eqb (List.length a) (List.length b) && forallb (fun p => zl_eqb (fst p) (snd p)) (combine a b).
Definition zlll_eqb (a b : list (list (list Z))) : bool :=
  Nat.eqb (List.length a) (List.length b) && forallb (fun p => zll_eqb (fst p) (snd p)) (combine a b).

Fixpoint hit_idx_from (i : Z) (bins : list rlist) (v : Z) : list Z :=
  match bins with
  | [] => []
  | b :: t => if contains b v then i :: hit_idx_from (i + 1) t v else hit_idx_from (i + 1) t v
  end.

(* ---- model (A): run the stateful model, record what each step increments ---- *)
Fixpoint xrun_deltas (cps : list cpm) (st : xstate) (samples : list xsample) : list (list Z) :=
  match samples with
  | [] => []
  | s :: t =>
    let st' := xstep cps st s in
    hit_idx_from 0 (map (fun p => if fst p =? snd p then [] else [(0, 0)]) (combine (st_hits st) (st_hits st'))) 0
      :: xrun_deltas cps st' t
  end.
Definition model_cp_deltas (cps : list cpm) (s : xsample) : list (list Z) :=
  map (fun p : cpm * (Z * bool) => if snd (snd p) then hit_idx_from 0 (List.concat (fst p)) (fst (snd p)) else []) (combine cps (xs_vals s)).

Definition c11_model_ok (c : c11case) (o : c11obs) : bool :=
  match seq_opt (map cp_models (x_cps c)) with
  | None => false
  | Some cps =>
    zll_eqb (xrun_deltas cps (xinit cps) (x_samples c)) (ob_x_deltas o) &&
    zlll_eqb (map (model_cp_deltas cps) (x_samples c)) (ob_cp_deltas o) &&
    (Z.of_nat (List.length (ob_x_names o)) =? cross_nbins (map cp_nbins cps)) &&
    zl_eqb (map (fun n => Z.of_nat (List.length n)) (ob_cp_names o)) (map cp_nbins cps)
  end.

(* ---- specification (B): judged on what the coverpoints were observed to do ---- *)
Fixpoint join (sep : string) (l : list string) : string :=
  match l with
  | [] => EmptyString
  | [x] => x
  | x :: t => x ++ sep ++ join sep t
  end.
Definition cross_name (names : list (list string)) (t : list Z) : string :=
  "<" ++ join "," (map (fun p => nth (Z.to_nat (snd p)) (fst p) "?"%string) (combine names t)) ++ ">".
Definition spec_step_ok (dims : list Z) (s : xsample) (cpd : list (list Z)) (xd : list Z) : bool :=
  let all_on := xs_iff s && forallb (fun p => snd p) (xs_vals s) && forallb (fun d => negb (is_nil d)) cpd in
  if all_on then
    match xd with
    | [idx] =>
      (0 <=? idx) && (idx <? cross_nbins dims) &&
      forallb (fun p => existsb (Z.eqb (fst p)) (snd p)) (combine (cross_tuple dims idx) cpd)
    | _ => false
    end
  else is_nil xd.
Definition c11_spec_ok (c : c11case) (o : c11obs) : bool :=
  let dims := map (fun n => Z.of_nat (List.length n)) (ob_cp_names o) in
  let nx := cross_nbins dims in
  (Z.of_nat (List.length (ob_x_names o)) =? nx) &&
  forallb (fun i => String.eqb (nth (Z.to_nat i) (ob_x_names o) "?"%string)
                               (cross_name (ob_cp_names o) (cross_tuple dims i)))
          (map Z.of_nat (seq 0 (Z.to_nat nx))) &&
  Nat.eqb (List.length (ob_x_deltas o)) (List.length (x_samples c)) &&
  forallb (fun p : xsample * list (list Z) * list Z => spec_step_ok dims (fst (fst p)) (snd (fst p)) (snd p))
          (combine (combine (x_samples c) (ob_cp_deltas o)) (ob_x_deltas o)).

Definition c11_check (c : c11case) (o : c11obs) : Z :=
  (if c11_model_ok c o then 0 else 1) + (if c11_spec_ok c o then 0 else 2).
