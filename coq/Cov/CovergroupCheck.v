(* Executable specification oracle (B) and correspondence comparison (A) for C12.  No proofs. *)
From Coq Require Import ZArith List Bool QArith.
From PV Require Import Cov.Rangelist Cov.Partition Cov.Coverpoint Cov.Cross Cov.Covergroup.
Import ListNotations.
Open Scope Z_scope.

Record c12param := mkP12 { p_cps : list cpspec; p_crosses : list (list nat); p_items : list item }.
Inductive c12op :=
| ONew (name : Z) (p : nat)
| OSample (k : nat) (deltas : list (list Z)) (type_cov inst_cov : Q).   (* deltas and coverages as observed *)
Record c12case := mkC12 { c_params : list c12param; c_ops : list c12op }.
Record c12obs := mkO12 {
  ob_attach : list Z;                      (* per instance: id of its type covergroup (ids in order of first appearance) *)
  ob_inst_hits : list (list (list Z));     (* per instance, per item, per bin *)
  ob_type_hits : list (list (list Z));     (* per instance: the hits of its type covergroup *)
  ob_inst_cov : list Q;                    (* per instance: get_inst_coverage() at the end *)
  ob_type_cov : list Q                     (* per instance: get_coverage() at the end *)
}.

(* the kind of object build_cov_model creates for a bin specification (CovergroupModel.equals compares classes):
   1 = single bag bin, 2 = bin array over one range, 3 = collection with one entry per range, 4 = partitioned collection,
   5 = enum bin *)
(* for a collection with one entry per range the entries themselves are compared ([0,0],[1,1] and [0,1] hold the same
   values but are different objects): the ranges follow the tag *)
Definition tag_of (ex : rlist) (b : binspec) : list Z :=
  match b with
  | BBin _ => [1]
  | BArray n rl =>
    match trim (compact rl) ex with
    | Some r =>
      let per_range := 3 :: flat_map (fun x => [fst x; snd x]) r ++ [-99] in
      match n with
      | None => if Nat.eqb (length r) 1 then [2] else per_range
      | Some k => if k <? count r then [4] else per_range
      end
    | None => [0]
    end
  end.
(* CoverpointModel.equals also compares the dedicated ignore / illegal bin models (their number and ranges): two
   coverpoints with the same regular bins but other exclusions are different types *)
Definition special_tags (c : cpspec) : list Z :=
  flat_map (fun r => -77 :: flat_map (fun x => [fst x; snd x]) r) (build_special (cp_ignore c)) ++
  flat_map (fun r => -78 :: flat_map (fun x => [fst x; snd x]) r) (build_special (cp_illegal c)).
Definition cp_tags (c : cpspec) : list Z :=
  let ex := exclude_of c in
  special_tags c ++
  match cp_kind c with
  | KBins bs =>
    flat_map fst (filter (fun p => match snd p with Some m => negb (is_nil m) | None => true end)
                         (map (fun b => (tag_of ex b, build_binspec ex b)) bs))
  | KAutoInt sg w m =>
    match trim [type_range sg w] ex with Some r => [if m <? count r then 4 else 3] | None => [] end
  | KAutoEnum vals => match cp_models c with Some ms => map (fun _ => 5) ms | None => [] end
  end.
Definition param_shape (p : c12param) : option shape :=
  option_map (fun cps => mkSh cps (map cp_tags (p_cps p)) (p_crosses p)) (seq_opt (map cp_models (p_cps p))).

Definition q_close (a b : Q) : bool := Qle_bool (a - b) (1 # 10000) && Qle_bool (b - a) (1 # 10000).
Definition zl_eqb (a b : list Z) : bool := list_eqb Z.eqb a b.
Definition zll_eqb (a b : list (list Z)) : bool := list_eqb zl_eqb a b.
Definition zlll_eqb (a b : list (list (list Z))) : bool := list_eqb zll_eqb a b.

(* ---- model (A): replay the operations on the registry model ---- *)
Fixpoint replay (params : list (option shape * list item)) (ops : list c12op) (r : reg) (ok : bool) : reg * bool :=
  match ops with
  | [] => (r, ok)
  | ONew name p :: t =>
    match nth_error params p with
    | Some (Some sh, items) => replay params t (step r (New name sh items)) ok
    | _ => (r, false)
    end
  | OSample k d tc ic :: t =>
    let r' := step r (Sample k d) in
    match nth_error (insts r') k with
    | Some i =>
      match nth_error (types r') (in_type i) with
      | Some ty =>
        replay params t r'
               (ok && q_close (cg_cov (ty_items ty) (ty_hits ty)) tc && q_close (cg_cov (in_items i) (in_hits i)) ic)
      | None => (r', false)
      end
    | None => (r', false)
    end
  end.
Definition c12_model_ok (c : c12case) (o : c12obs) : bool :=
  let params := map (fun p => (param_shape p, p_items p)) (c_params c) in
  let '(r, ok) := replay params (c_ops c) (mkReg [] []) true in
  ok &&
  zl_eqb (map (fun i => Z.of_nat (in_type i)) (insts r)) (ob_attach o) &&
  zlll_eqb (map in_hits (insts r)) (ob_inst_hits o) &&
  zlll_eqb (map (fun i => match nth_error (types r) (in_type i) with Some t => ty_hits t | None => [] end) (insts r))
           (ob_type_hits o).

(* ---- specification (B), judged on the observations only ---- *)
Definition add_hits (a b : list (list Z)) : list (list Z) :=
  map (fun p => map (fun q => fst q + snd q) (combine (fst p) (snd p))) (combine a b).
Fixpoint news (ops : list c12op) : list (Z * nat) :=
  match ops with [] => [] | ONew n p :: t => (n, p) :: news t | _ :: t => news t end.
(* coverage values reported for instance k (its own) and for its type, in order *)
Fixpoint covs_of (ops : list c12op) (k : nat) : list Q :=
  match ops with
  | [] => []
  | OSample j _ _ ic :: t => if Nat.eqb j k then ic :: covs_of t k else covs_of t k
  | _ :: t => covs_of t k
  end.
Fixpoint type_covs_of (ops : list c12op) (attach : list Z) (ty : Z) : list Q :=
  match ops with
  | [] => []
  | OSample j _ tc _ :: t =>
    if nth j attach (-1) =? ty then tc :: type_covs_of t attach ty else type_covs_of t attach ty
  | _ :: t => type_covs_of t attach ty
  end.
Fixpoint nondecreasing (l : list Q) : bool :=
  match l with
  | a :: ((b :: _) as t) => Qle_bool a (b + (1 # 10000)) && nondecreasing t
  | _ => true
  end.
Definition in_0_100 (q : Q) : bool := Qle_bool 0 q && Qle_bool q 100.
Definition idxs {A} (l : list A) : list nat := seq 0 (length l).

Definition c12_spec_ok (c : c12case) (o : c12obs) : bool :=
  let ns := news (c_ops c) in
  let n := length ns in
  let shapes := map (fun np => match nth_error (c_params c) (snd np) with Some p => param_shape p | None => None end) ns in
  let items := map (fun np => match nth_error (c_params c) (snd np) with Some p => p_items p | None => [] end) ns in
  Nat.eqb (length (ob_attach o)) n && Nat.eqb (length (ob_inst_hits o)) n && Nat.eqb (length (ob_type_hits o)) n &&
  (* instances of one type have the same name and the same set of bins; identical constructor parameters give one type *)
  forallb (fun i => forallb (fun j =>
      (implb (nth i (ob_attach o) (-1) =? nth j (ob_attach o) (-2))
             ((fst (nth i ns (0, O)) =? fst (nth j ns (0, O))) &&
              match nth i shapes None, nth j shapes None with
              | Some a, Some b => list_eqb (list_eqb (list_eqb (list_eqb range_eqb))) (sh_cps a) (sh_cps b)
              | _, _ => false
              end)) &&
      (implb ((fst (nth i ns (0, O)) =? fst (nth j ns (0, O))) && Nat.eqb (snd (nth i ns (0, O))) (snd (nth j ns (0, O))))
             (nth i (ob_attach o) (-1) =? nth j (ob_attach o) (-2)))) (seq 0 n)) (seq 0 n) &&
  (* type data = bin-wise sum over the attached instances *)
  forallb (fun i =>
      let ty := nth i (ob_attach o) (-1) in
      let mine := filter (fun j => nth j (ob_attach o) (-2) =? ty) (seq 0 n) in
      match mine with
      | [] => false
      | j0 :: rest =>
        zll_eqb (nth i (ob_type_hits o) [])
                (fold_left (fun acc j => add_hits acc (nth j (ob_inst_hits o) [])) rest (nth j0 (ob_inst_hits o) []))
      end) (seq 0 n) &&
  (* reported coverage = weighted share of bins at their at_least threshold; 0..100; never decreasing *)
  forallb (fun i =>
      q_close (nth i (ob_inst_cov o) (-1 # 1)) (cg_cov (nth i items []) (nth i (ob_inst_hits o) [])) &&
      in_0_100 (nth i (ob_inst_cov o) (-1 # 1)) && in_0_100 (nth i (ob_type_cov o) (-1 # 1)) &&
      nondecreasing (covs_of (c_ops c) i ++ [nth i (ob_inst_cov o) (-1 # 1)]) &&
      nondecreasing (type_covs_of (c_ops c) (ob_attach o) (nth i (ob_attach o) (-1)) ++ [nth i (ob_type_cov o) (-1 # 1)]))
    (seq 0 n) &&
  (* type coverage: computed from the type's hits with the options of the first instance attached to it *)
  forallb (fun i =>
      let ty := nth i (ob_attach o) (-1) in
      match filter (fun j => nth j (ob_attach o) (-2) =? ty) (seq 0 n) with
      | j0 :: _ => q_close (nth i (ob_type_cov o) (-1 # 1)) (cg_cov (nth j0 items []) (nth i (ob_type_hits o) []))
      | [] => false
      end) (seq 0 n).

Definition c12_check (c : c12case) (o : c12obs) : Z :=
  (if c12_model_ok c o then 0 else 1) + (if c12_spec_ok c o then 0 else 2).
