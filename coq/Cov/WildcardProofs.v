(* Proofs about the wildcard-bin model (Wildcard.v). *)
From Coq Require Import ZArith List Bool Lia ZifyBool.
From PV Require Import Cov.Rangelist Cov.RangelistProofs Cov.Partition Cov.PartitionProofs Cov.Wildcard.
Import ListNotations.
Open Scope Z_scope.

(* W1: the comparison made by a single wildcard bin is bitwise agreement on the mask bits *)
Lemma spec_hit_agrees value mask v :
  spec_hit (value, mask) v = true <-> agrees value mask v.
Proof.
  unfold spec_hit, agrees. cbn [fst snd]. rewrite Z.eqb_eq. split.
  - intros H i Hi Hm.
    assert (E : Z.testbit (Z.land v mask) i = Z.testbit (Z.land value mask) i) by now rewrite H.
    rewrite !Z.land_spec, Hm, !andb_true_r in E. exact E.
  - intros H. apply Z.bits_inj'. intros i Hi. rewrite !Z.land_spec.
    destruct (Z.testbit mask i) eqn:Hm; [|now rewrite !andb_false_r].
    now rewrite (H i Hi Hm).
Qed.

(* ---- W2: str2bin ----------------------------------------------------------------------------- *)
Lemma shift_in_snoc b ds d acc : shift_in b (ds ++ [d]) acc = shift_step b (shift_in b ds acc) d.
Proof. unfold shift_in. rewrite fold_left_app. reflexivity. Qed.

Lemma small_bits_high x b i : 0 <= x < 2 ^ b -> 0 <= b <= i -> Z.testbit x i = false.
Proof.
  intros Hx Hb. rewrite <- (Z.mod_small x (2 ^ b)) by lia. apply Z.mod_pow2_bits_high. lia.
Qed.

Lemma pow2m1_bits b i : 0 <= b -> 0 <= i -> Z.testbit (2 ^ b - 1) i = (i <? b).
Proof.
  intros Hb Hi. replace (2 ^ b - 1) with (Z.ones b) by (rewrite Z.ones_equiv; lia).
  apply Z.testbit_ones_nonneg; assumption.
Qed.

(* W2: str2bin computes the pattern the digits write down.  ds is most significant digit first,
   as in Wildcard.shift_in. *)
Lemma shift_in_bits b ds :
  0 < b -> forallb (wf_digit b) ds = true ->
  forall i, 0 <= i ->
    Z.testbit (snd (shift_in b ds (0, 0))) i = (match pat_bit b (rev ds) i with Some _ => true | None => false end) /\
    Z.testbit (fst (shift_in b ds (0, 0))) i = (match pat_bit b (rev ds) i with Some x => x | None => false end).
Proof.
  intros Hb. induction ds as [|d ds IH] using rev_ind; intros Hwf i Hi.
  - cbn. rewrite Z.testbit_0_l. split; reflexivity.
  - rewrite forallb_app in Hwf. apply andb_true_iff in Hwf as [Hwf Hd].
    cbn [forallb] in Hd. rewrite andb_true_r in Hd. specialize (IH Hwf).
    rewrite shift_in_snoc, rev_app_distr. cbn [rev app pat_bit].
    destruct (shift_in b ds (0, 0)) as [val msk] eqn:Eacc. cbn [fst snd] in IH.
    destruct (i <? b) eqn:Eib.
    + assert (Hneg : i - b < 0) by lia.
      destruct d as [|x]; cbn [shift_step fst snd].
      * rewrite !Z.shiftl_spec by assumption.
        rewrite (Z.testbit_neg_r val (i - b)), (Z.testbit_neg_r msk (i - b)) by assumption.
        split; reflexivity.
      * rewrite !Z.lor_spec, !Z.shiftl_spec by assumption.
        rewrite (Z.testbit_neg_r val (i - b)), (Z.testbit_neg_r msk (i - b)) by assumption.
        rewrite pow2m1_bits by lia. rewrite Eib. split; reflexivity.
    + assert (Hge : 0 <= i - b) by lia. destruct (IH (i - b) Hge) as [IH1 IH2].
      destruct d as [|x]; cbn [shift_step fst snd].
      * rewrite !Z.shiftl_spec by assumption. split; assumption.
      * cbn [wf_digit] in Hd.
        rewrite !Z.lor_spec, !Z.shiftl_spec by assumption.
        rewrite pow2m1_bits by lia. rewrite Eib, orb_false_r.
        rewrite (small_bits_high x b i) by lia. rewrite orb_false_r. split; assumption.
Qed.

Lemma digit_val_nonneg c d : digit_val c = Some d -> 0 <= d.
Proof.
  unfold digit_val. cbv zeta. intros H.
  destruct ((48 <=? zofa c) && (zofa c <=? 57)) eqn:E1; [inversion H; lia|].
  destruct ((97 <=? zofa c) && (zofa c <=? 102)) eqn:E2; [inversion H; lia|].
  destruct ((65 <=? zofa c) && (zofa c <=? 70)) eqn:E3; [inversion H; lia|discriminate].
Qed.

Lemma digits_of_wf b cs ds : 0 <= b -> digits_of b cs = Some ds -> forallb (wf_digit b) ds = true.
Proof.
  intros Hb. revert ds. induction cs as [|c t IH]; intros ds H; cbn [digits_of] in H.
  - inversion H. reflexivity.
  - destruct (is_skip c); [apply IH; exact H|].
    destruct (is_wild c).
    + destruct (digits_of b t) as [ds'|]; [|discriminate]. cbn [option_map] in H.
      inversion H; subst. cbn [forallb wf_digit]. apply IH. reflexivity.
    + destruct (digit_val c) as [d|] eqn:Ed; [|discriminate].
      destruct (d <? 2 ^ b) eqn:Elt; [|discriminate].
      destruct (digits_of b t) as [ds'|]; [|discriminate]. cbn [option_map] in H.
      inversion H; subst. cbn [forallb wf_digit]. rewrite (IH ds' eq_refl), Elt.
      apply digit_val_nonneg in Ed. lia.
Qed.

Lemma base_bits_pos s b t : base_bits s = Some (b, t) -> b = 1 \/ b = 3 \/ b = 4.
Proof.
  unfold base_bits. intros H. destruct s as [|z [|k r]]; try discriminate.
  destruct (zofa z =? 48); [|discriminate]. cbv zeta in H.
  destruct ((zofa k =? 111) || (zofa k =? 79)); [inversion H; auto|].
  destruct ((zofa k =? 120) || (zofa k =? 88)); [inversion H; auto|].
  destruct ((zofa k =? 98) || (zofa k =? 66)); [inversion H; auto|discriminate].
Qed.

(* the property's statement for string patterns: a sample v hits the bin built from string s iff
   v agrees with every non-wildcard bit of the written pattern *)
Lemma str2bin_hit s b ds v :
  str2digits s = Some (b, ds) ->
  exists value mask, str2bin s = Some (value, mask) /\
    (spec_hit (value, mask) v = true <->
     forall i x, 0 <= i -> pat_bit b (rev ds) i = Some x -> Z.testbit v i = x).
Proof.
  intros H. unfold str2bin. rewrite H.
  unfold str2digits in H.
  destruct (base_bits (String.list_ascii_of_string s)) as [[b' t]|] eqn:Eb; [|discriminate].
  destruct (digits_of b' t) as [ds'|] eqn:Ed; [|discriminate].
  cbn [option_map] in H. inversion H; subst b' ds'. clear H.
  assert (Hb : 0 < b) by (apply base_bits_pos in Eb; lia).
  assert (Hwf : forallb (wf_digit b) ds = true) by (eapply digits_of_wf; [lia|exact Ed]).
  pose proof (shift_in_bits b ds Hb Hwf) as Hbits.
  destruct (shift_in b ds (0, 0)) as [value mask] eqn:Eacc. cbn [fst snd] in Hbits.
  exists value, mask. split; [reflexivity|].
  rewrite spec_hit_agrees. unfold agrees. split.
  - intros Hag i x Hi Hp. destruct (Hbits i Hi) as [Hm Hv]. rewrite Hp in Hm, Hv.
    rewrite (Hag i Hi Hm). exact Hv.
  - intros Hp i Hi Hm. destruct (Hbits i Hi) as [Hm' Hv]. rewrite Hm in Hm'.
    destruct (pat_bit b (rev ds) i) as [x|] eqn:Ep; [|discriminate].
    rewrite Hv. apply (Hp i x Hi Ep).
Qed.

(* ---- W3: matchvals --------------------------------------------------------------------------- *)
Lemma psize_pos m : 0 < psize m.
Proof. induction m; cbn [psize]; lia. Qed.

Lemma pow2_succ p : 0 <= p -> 2 ^ (1 + p) = 2 * 2 ^ p.
Proof. intros Hp. replace (1 + p) with (Z.succ p) by lia. apply Z.pow_succ_r. exact Hp. Qed.

Lemma testbit_succ_div2 a i : 0 <= i -> Z.testbit a (Z.succ i) = Z.testbit (Z.div2 a) i.
Proof. intros Hi. rewrite Z.div2_div. symmetry. apply Z.div2_bits. exact Hi. Qed.

(* agreement on a mask, peeled one bit at a time *)
Lemma agrees_step v m x :
  agrees v m x <->
  ((Z.odd m = true -> Z.odd x = Z.odd v) /\ agrees (Z.div2 v) (Z.div2 m) (Z.div2 x)).
Proof.
  unfold agrees. split.
  - intros H. split.
    + intros Hm. rewrite <- !Z.bit0_odd. apply H; [lia|]. rewrite Z.bit0_odd. exact Hm.
    + intros i Hi Hm. rewrite <- !testbit_succ_div2 by assumption.
      apply H; [lia|]. rewrite testbit_succ_div2 by assumption. exact Hm.
  - intros [H0 HS] i Hi Hm.
    assert (Hc : i = 0 \/ exists j, i = Z.succ j /\ 0 <= j) by (destruct (Z.eq_dec i 0); [left; assumption|right; exists (i - 1); lia]).
    destruct Hc as [->|(j & -> & Hj)].
    + rewrite Z.bit0_odd in Hm. rewrite !Z.bit0_odd. apply H0. exact Hm.
    + rewrite testbit_succ_div2 in Hm by assumption.
      rewrite !testbit_succ_div2 by assumption. apply HS; assumption.
Qed.

Lemma agrees_zero_mask v x : agrees v 0 x.
Proof. intros i Hi Hm. rewrite Z.testbit_0_l in Hm. discriminate. Qed.

Lemma div2_odd_unique x y (c : bool) : x = 2 * y + Z.b2z c -> Z.div2 x = y /\ Z.odd x = c.
Proof.
  intros ->. split.
  - rewrite Z.div2_div. destruct c; cbn [Z.b2z]; Z.div_mod_to_equations; lia.
  - rewrite Z.add_comm, Z.odd_add_mul_2. destruct c; reflexivity.
Qed.

(* W3: matchvals enumerates, in strictly ascending order, exactly the x below 2^(bit length of the
   mask) that agree with v on the mask bits *)
Lemma matchvals_spec m : forall v x,
  In x (matchvals m v) <-> (0 <= x < 2 ^ psize m /\ agrees v (Zpos m) x).
Proof.
  induction m as [m IH|m IH|]; intros v x; cbn [matchvals psize].
  - (* xI *)
    pose proof (psize_pos m) as Hps. rewrite pow2_succ by lia.
    rewrite in_map_iff, agrees_step.
    change (Z.div2 (Zpos m~1)) with (Zpos m). change (Z.odd (Zpos m~1)) with true.
    split.
    + intros (y & Hy & Hin). apply IH in Hin as [Hr Hag].
      destruct (div2_odd_unique x y (Z.odd v) (eq_sym Hy)) as [Hd Ho].
      rewrite Hd, Ho. split; [|split; [reflexivity|exact Hag]].
      subst x. destruct (Z.odd v); cbn [Z.b2z]; lia.
    + intros (Hr & Ho & Hag). specialize (Ho eq_refl).
      exists (Z.div2 x). pose proof (Z.div2_odd x) as Hx. split.
      * rewrite <- Ho. lia.
      * apply IH. split; [|exact Hag]. destruct (Z.odd x); cbn [Z.b2z] in Hx; lia.
  - (* xO *)
    pose proof (psize_pos m) as Hps. rewrite pow2_succ by lia.
    rewrite in_flat_map, agrees_step.
    change (Z.div2 (Zpos m~0)) with (Zpos m). change (Z.odd (Zpos m~0)) with false.
    split.
    + intros (y & Hin & Hy). apply IH in Hin as [Hr Hag].
      assert (Hx : exists c : bool, x = 2 * y + Z.b2z c).
      { cbn [In] in Hy. destruct Hy as [Hy|[Hy|[]]]; [exists false|exists true]; cbn [Z.b2z]; lia. }
      destruct Hx as [c Hx]. destruct (div2_odd_unique x y c Hx) as [Hd Ho].
      rewrite Hd. split; [|split; [discriminate|exact Hag]].
      subst x. destruct c; cbn [Z.b2z]; lia.
    + intros (Hr & _ & Hag). exists (Z.div2 x). pose proof (Z.div2_odd x) as Hx. split.
      * apply IH. split; [|exact Hag]. destruct (Z.odd x); cbn [Z.b2z] in Hx; lia.
      * cbn [In]. destruct (Z.odd x); cbn [Z.b2z] in Hx; lia.
  - (* xH *)
    rewrite agrees_step. change (Z.div2 1) with 0. change (Z.odd 1) with true.
    cbn [In]. change (2 ^ 1) with 2. pose proof (Z.div2_odd x) as Hx. split.
    + intros [Hy|[]]. destruct (div2_odd_unique x 0 (Z.odd v)) as [Hd Ho]; [lia|].
      split; [|split; [intros _; exact Ho|apply agrees_zero_mask]].
      subst x. destruct (Z.odd v); cbn [Z.b2z]; lia.
    + intros (Hr & Ho & _). specialize (Ho eq_refl). left. rewrite <- Ho.
      destruct (Z.odd x); cbn [Z.b2z] in *; lia.
Qed.

Lemma ascending_map_affine c l : ascending l = true -> ascending (map (fun y => 2 * y + c) l) = true.
Proof.
  induction l as [|a t IH]; intros H; [reflexivity|].
  cbn [ascending map] in *. apply andb_true_iff in H as [H1 H2]. rewrite (IH H2), andb_true_r.
  destruct t as [|y t']; [reflexivity|]. cbn [map]. lia.
Qed.

Lemma ascending_flat_pair l :
  ascending l = true -> ascending (flat_map (fun y => [2 * y; 2 * y + 1]) l) = true.
Proof.
  induction l as [|a t IH]; intros H; [reflexivity|].
  cbn [ascending] in H. apply andb_true_iff in H as [H1 H2]. specialize (IH H2).
  cbn [flat_map app]. cbn [ascending]. cbn [ascending] in IH. rewrite IH, andb_true_r.
  destruct t as [|y t']; cbn [flat_map app]; lia.
Qed.

Lemma matchvals_ascending m : forall v, ascending (matchvals m v) = true.
Proof.
  induction m as [m IH|m IH|]; intros v; cbn [matchvals].
  - apply ascending_map_affine, IH.
  - apply ascending_flat_pair, IH.
  - reflexivity.
Qed.

(* ---- W4: merge_runs -------------------------------------------------------------------------- *)
Lemma wf_range_pair lo hi : wf_range (lo, hi) = (lo <=? hi).
Proof. reflexivity. Qed.

Lemma merge_runs_wf vs : forallb wf_range (merge_runs vs) = true.
Proof.
  induction vs as [|x t IH]; [reflexivity|]. cbn [merge_runs].
  destruct (merge_runs t) as [|[lo hi] r] eqn:E.
  - cbn [forallb]. unfold wf_range. cbn [fst snd]. lia.
  - cbn [forallb] in IH. apply andb_true_iff in IH as [H1 H2]. unfold wf_range in H1. cbn [fst snd] in H1.
    destruct (x + 1 =? lo) eqn:Ex; cbn [forallb]; rewrite H2, ?wf_range_pair; lia.
Qed.

(* W4: merging consecutive values into ranges *)
Lemma merge_runs_contains vs x : contains (merge_runs vs) x = existsb (Z.eqb x) vs.
Proof.
  induction vs as [|a t IH]; [reflexivity|]. cbn [merge_runs existsb].
  pose proof (merge_runs_wf t) as Hwf. rewrite <- IH.
  destruct (merge_runs t) as [|[lo hi] r] eqn:E.
  - cbn [contains existsb]. unfold in_range. cbn [fst snd]. lia.
  - cbn [forallb] in Hwf. apply andb_true_iff in Hwf as [H1 _]. unfold wf_range in H1. cbn [fst snd] in H1.
    destruct (a + 1 =? lo) eqn:Ex; rewrite !contains_cons; unfold in_range; cbn [fst snd];
      destruct (contains r x); lia.
Qed.

Lemma merge_runs_head a t : exists hi r, merge_runs (a :: t) = (a, hi) :: r.
Proof.
  cbn [merge_runs]. destruct (merge_runs t) as [|[lo hi] r]; [eauto|].
  destruct (a + 1 =? lo); eauto.
Qed.

Lemma merge_runs_gapped vs : ascending vs = true -> sorted_gapped (merge_runs vs) = true.
Proof.
  induction vs as [|a t IH]; intros H; [reflexivity|].
  cbn [ascending] in H. apply andb_true_iff in H as [H1 H2]. specialize (IH H2).
  destruct t as [|y t'].
  - cbn. unfold wf_range. cbn [fst snd]. lia.
  - destruct (merge_runs_head y t') as (hi & r & E).
    change (merge_runs (a :: y :: t')) with
      (match merge_runs (y :: t') with
       | (lo, hi) :: r => if a + 1 =? lo then (a, hi) :: r else (a, a) :: (lo, hi) :: r
       | [] => [(a, a)]
       end).
    rewrite E in *. cbn [sorted_gapped] in IH. cbn [fst snd] in IH.
    apply andb_true_iff in IH as [IH12 IH3]. apply andb_true_iff in IH12 as [IH1 IH2].
    rewrite wf_range_pair in IH1.
    destruct (a + 1 =? y) eqn:Ex.
    + cbn [sorted_gapped]. cbn [fst snd]. rewrite IH2, IH3, wf_range_pair. lia.
    + cbn [sorted_gapped]. cbn [fst snd]. rewrite IH2, IH3, !wf_range_pair. lia.
Qed.

Lemma sorted_gapped_wf l : sorted_gapped l = true -> forallb wf_range l = true.
Proof.
  induction l as [|a t IH]; intros H; [reflexivity|].
  cbn [sorted_gapped] in H. apply andb_true_iff in H as [H12 H3]. apply andb_true_iff in H12 as [H1 _].
  cbn [forallb]. rewrite H1, (IH H3). reflexivity.
Qed.

(* ---- W5: collapse ---------------------------------------------------------------------------- *)
Lemma collapse_contains n : forall l x, sorted_fst l = true -> forallb wf_range l = true ->
  contains (collapse n l) x = contains l x.
Proof.
  induction n as [|f IH]; intros l x Hs Hw; [reflexivity|].
  destruct l as [|a [|b t]]; try reflexivity.
  cbn [collapse].
  cbn [sorted_fst] in Hs. apply andb_true_iff in Hs as [Hab Hs].
  cbn [forallb] in Hw. apply andb_true_iff in Hw as [Hwa Hw]. apply andb_true_iff in Hw as [Hwb Hwt].
  unfold wf_range in Hwa, Hwb.
  destruct (fst b <=? snd a + 1) eqn:E.
  - rewrite IH.
    + rewrite !contains_cons. unfold in_range. cbn [fst snd]. destruct (contains t x); lia.
    + cbn [sorted_fst] in *. apply andb_true_iff in Hs as [Hbt Hs]. rewrite Hs, andb_true_r.
      destruct t as [|c t']; [reflexivity|]. cbn [fst]. lia.
    + cbn [forallb]. rewrite Hwt, andb_true_r. unfold wf_range. cbn [fst snd]. lia.
  - rewrite (contains_cons a (collapse f (b :: t))), IH.
    + rewrite <- contains_cons. reflexivity.
    + exact Hs.
    + cbn [forallb]. rewrite Hwt, andb_true_r. unfold wf_range. exact Hwb.
Qed.

Lemma collapse_head n : forall a t, exists a' r, collapse n (a :: t) = a' :: r /\ fst a' = fst a.
Proof.
  induction n as [|f IH]; intros a t; [cbn; eauto|].
  destruct t as [|b t]; [cbn; eauto|]. cbn [collapse].
  destruct (fst b <=? snd a + 1); [|eauto].
  destruct (IH (fst a, Z.max (snd a) (snd b)) t) as (a' & r & E & Hf). eauto.
Qed.

Lemma collapse_gapped n : forall l, (length l <= n)%nat -> sorted_fst l = true -> forallb wf_range l = true ->
  sorted_gapped (collapse n l) = true.
Proof.
  induction n as [|f IH]; intros l Hn Hs Hw.
  - destruct l; [reflexivity|cbn [length] in Hn; lia].
  - destruct l as [|a [|b t]]; [reflexivity| |].
    + cbn [collapse sorted_gapped]. cbn [forallb] in Hw. rewrite andb_true_r in Hw. rewrite Hw. reflexivity.
    + cbn [collapse]. cbn [length] in Hn.
      cbn [sorted_fst] in Hs. apply andb_true_iff in Hs as [Hab Hs].
      cbn [forallb] in Hw. apply andb_true_iff in Hw as [Hwa Hw]. apply andb_true_iff in Hw as [Hwb Hwt].
      destruct (fst b <=? snd a + 1) eqn:E.
      * apply IH.
        -- cbn [length]. lia.
        -- cbn [sorted_fst] in *. apply andb_true_iff in Hs as [Hbt Hs]. rewrite Hs, andb_true_r.
           destruct t as [|c t']; [reflexivity|]. cbn [fst]. lia.
        -- cbn [forallb]. rewrite Hwt, andb_true_r. unfold wf_range in *. cbn [fst snd]. lia.
      * assert (Hg : sorted_gapped (collapse f (b :: t)) = true).
        { apply IH; [cbn [length]; lia|exact Hs|]. cbn [forallb]. rewrite Hwb, Hwt. reflexivity. }
        destruct (collapse_head f b t) as (a' & r & Ec & Hf). rewrite Ec in *.
        cbn [sorted_gapped] in *. rewrite Hwa, Hg. lia.
Qed.

(* ---- W6: wild_ranges ------------------------------------------------------------------------- *)
Definition spec_matches (s : Z * Z) (x : Z) : Prop :=
  match snd s with
  | Zpos m => 0 <= x < 2 ^ psize m /\ agrees (fst s) (snd s) x
  | _ => x = 0
  end.

Lemma valmask2binlist_wf value mask : forallb wf_range (valmask2binlist value mask) = true.
Proof. unfold valmask2binlist. destruct mask; try reflexivity. apply merge_runs_wf. Qed.

Lemma existsb_eqb_In x l : existsb (Z.eqb x) l = true <-> In x l.
Proof.
  rewrite existsb_exists. split.
  - intros (y & Hin & He). apply Z.eqb_eq in He. subst. exact Hin.
  - intros Hin. exists x. split; [exact Hin|apply Z.eqb_refl].
Qed.

Lemma valmask2binlist_spec s x :
  contains (valmask2binlist (fst s) (snd s)) x = true <-> spec_matches s x.
Proof.
  unfold valmask2binlist, spec_matches. destruct (snd s) as [|m|m] eqn:Em.
  - cbn [contains existsb]. unfold in_range. cbn [fst snd]. lia.
  - rewrite merge_runs_contains, existsb_eqb_In. apply matchvals_spec.
  - cbn [contains existsb]. unfold in_range. cbn [fst snd]. lia.
Qed.

Lemma contains_flat_map {A} (f : A -> rlist) l x :
  contains (flat_map f l) x = existsb (fun s => contains (f s) x) l.
Proof.
  induction l as [|a t IH]; [reflexivity|]. cbn [flat_map existsb]. rewrite contains_app, IH. reflexivity.
Qed.

Lemma forallb_flat_map {A B} (p : B -> bool) (f : A -> list B) l :
  (forall a, forallb p (f a) = true) -> forallb p (flat_map f l) = true.
Proof.
  intros H. induction l as [|a t IH]; [reflexivity|]. cbn [flat_map]. rewrite forallb_app, H, IH. reflexivity.
Qed.

Lemma wild_list_wf specs :
  forallb wf_range (sort (flat_map (fun s => valmask2binlist (fst s) (snd s)) specs)) = true.
Proof.
  rewrite forallb_sort. apply forallb_flat_map. intros s. apply valmask2binlist_wf.
Qed.

(* W6: the ranges behind a wildcard bin array hold exactly the values that match one of the
   (value, mask) specs within the width of that spec's mask, and they are ascending maximal runs *)
Lemma wild_ranges_spec specs x :
  contains (wild_ranges specs) x = true <-> exists s, In s specs /\ spec_matches s x.
Proof.
  unfold wild_ranges. cbv zeta.
  rewrite collapse_contains by (apply sorted_fst_sort || apply wild_list_wf).
  rewrite contains_sort, contains_flat_map, existsb_exists.
  split; intros (s & Hin & Hs); exists s; (split; [exact Hin|]); apply valmask2binlist_spec; exact Hs.
Qed.

Lemma wild_ranges_gapped specs : sorted_gapped (wild_ranges specs) = true.
Proof.
  unfold wild_ranges. cbv zeta. apply collapse_gapped.
  - apply Nat.le_refl.
  - apply sorted_fst_sort.
  - apply wild_list_wf.
Qed.

(* ---- the bins of a wildcard bin array ---------------------------------------------------------- *)
Lemma wild_array_bins_per_value specs :
  exists bins, wild_array_bins specs None = Some bins /\
    (forall k, 0 <= k -> nth_val (concat bins) k = nth_val (wild_ranges specs) k) /\
    Forall (fun c => c = 1) (map count bins).
Proof.
  unfold wild_array_bins. eexists. split; [reflexivity|].
  apply per_value_spec, sorted_gapped_wf, wild_ranges_gapped.
Qed.

Lemma wild_array_bins_count specs n :
  1 <= n -> n < count (wild_ranges specs) ->
  exists bins, wild_array_bins specs (Some n) = Some bins /\
    (forall k, 0 <= k -> nth_val (concat bins) k = nth_val (wild_ranges specs) k) /\
    map count bins = repeat (count (wild_ranges specs) / n) (Z.to_nat (n - 1)) ++
                     [count (wild_ranges specs) - (n - 1) * (count (wild_ranges specs) / n)] /\
    forallb (forallb wf_range) bins = true.
Proof.
  intros H1 H2. unfold wild_array_bins.
  apply mk_collection_partition_lemma; [apply sorted_gapped_wf, wild_ranges_gapped|assumption|assumption].
Qed.
