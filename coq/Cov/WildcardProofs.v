(* Proofs about the wildcard-bin model (Wildcard.v). *)
From Coq Require Import ZArith List Bool Lia ZifyBool.
From PV Require Import Cov.Rangelist Cov.RangelistProofs Cov.Partition Cov.PartitionProofs Cov.Wildcard.
Import ListNotations.
Open Scope Z_scope.

(* W1: the comparison made by a single wildcard bin is bitwise agreement on the mask bits *)
Lemma spec_hit_agrees value mask v :
  spec_hit (value, mask) v = true <-> agrees value mask v.
Proof.
  unfold spec_hit, agrees. cbn [fst snd]. rewrite Z.eqb_eq. split.
  - intros H i Hi Hm.
    assert (E : Z.testbit (Z.land v mask) i = Z.testbit (Z.land value mask) i) by now rewrite H.
    rewrite !Z.land_spec, Hm, !andb_true_r in E. exact E.
  - intros H. apply Z.bits_inj'. intros i Hi. rewrite !Z.land_spec.
    destruct (Z.testbit mask i) eqn:Hm; [|now rewrite !andb_false_r].
    now rewrite (H i Hi Hm).
Qed.
