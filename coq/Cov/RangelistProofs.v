(* Proofs about the RangelistModel model (Rangelist.v). *)
From Coq Require Import ZArith List Bool Lia ZifyBool.
From PV Require Import Cov.Rangelist.
Import ListNotations.
Open Scope Z_scope.

Lemma contains_app l1 l2 v : contains (l1 ++ l2) v = contains l1 v || contains l2 v.
Proof. unfold contains. apply existsb_app. Qed.

Lemma contains_cons r l v : contains (r :: l) v = in_range r v || contains l v.
Proof. reflexivity. Qed.

(* ---- sort ---------------------------------------------------------------------------------- *)
Lemma contains_insert r l v : contains (insert r l) v = in_range r v || contains l v.
Proof.
  induction l as [|h t IH]; cbn [insert]; [reflexivity|].
  destruct (fst r <? fst h); [reflexivity|].
  rewrite !contains_cons, IH. destruct (in_range r v), (in_range h v); reflexivity.
Qed.

Lemma contains_sort_acc l : forall acc v,
  contains (fold_left (fun a r => insert r a) l acc) v = contains l v || contains acc v.
Proof.
  induction l as [|h t IH]; intros acc v; cbn [fold_left]; [reflexivity|].
  rewrite IH, contains_insert, contains_cons.
  destruct (in_range h v), (contains t v), (contains acc v); reflexivity.
Qed.

Lemma contains_sort l v : contains (sort l) v = contains l v.
Proof. unfold sort. rewrite contains_sort_acc. cbn. apply orb_false_r. Qed.

Fixpoint sorted_fst (l : rlist) : bool :=
  match l with
  | [] => true
  | a :: t => match t with [] => true | b :: _ => fst a <=? fst b end && sorted_fst t
  end.

Lemma sorted_fst_insert r l : sorted_fst l = true -> sorted_fst (insert r l) = true.
Proof.
  induction l as [|h t IH]; intros Hs; [reflexivity|].
  cbn [insert]. destruct (fst r <? fst h) eqn:E.
  - cbn [sorted_fst] in *. rewrite Hs. lia.
  - cbn [sorted_fst] in Hs. apply andb_true_iff in Hs as [H1 H2]. specialize (IH H2).
    destruct t as [|b t']; cbn [insert sorted_fst] in *.
    + lia.
    + destruct (fst r <? fst b) eqn:E2; cbn [sorted_fst] in *; rewrite ?H2; try lia.
Qed.

Lemma sorted_fst_sort_acc l : forall acc, sorted_fst acc = true ->
  sorted_fst (fold_left (fun a r => insert r a) l acc) = true.
Proof.
  induction l as [|h t IH]; intros acc H; cbn [fold_left]; [exact H|].
  apply IH, sorted_fst_insert, H.
Qed.

Lemma sorted_fst_sort l : sorted_fst (sort l) = true.
Proof. apply sorted_fst_sort_acc. reflexivity. Qed.

Lemma disjoint2_sym a b : disjoint2 a b = disjoint2 b a.
Proof. unfold disjoint2. apply orb_comm. Qed.

Lemma forallb_insert (f : range -> bool) r l : forallb f (insert r l) = f r && forallb f l.
Proof.
  induction l as [|h t IH]; cbn [insert forallb]; [reflexivity|].
  destruct (fst r <? fst h); cbn [forallb]; [reflexivity|].
  rewrite IH. destruct (f r), (f h); reflexivity.
Qed.

Lemma pd_insert r l :
  pairwise_disjoint (insert r l) = forallb (disjoint2 r) l && pairwise_disjoint l.
Proof.
  induction l as [|h t IH]; cbn [insert pairwise_disjoint forallb]; [reflexivity|].
  destruct (fst r <? fst h); cbn [pairwise_disjoint forallb]; [reflexivity|].
  rewrite IH, forallb_insert, (disjoint2_sym h r).
  destruct (disjoint2 r h), (forallb (disjoint2 h) t), (forallb (disjoint2 r) t); reflexivity.
Qed.

Lemma forallb_sort_acc (f : range -> bool) l : forall acc,
  forallb f (fold_left (fun a r => insert r a) l acc) = forallb f l && forallb f acc.
Proof.
  induction l as [|h t IH]; intros acc; cbn [fold_left forallb]; [reflexivity|].
  rewrite IH, forallb_insert. destruct (f h), (forallb f t); reflexivity.
Qed.

Lemma forallb_sort (f : range -> bool) l : forallb f (sort l) = forallb f l.
Proof. unfold sort. rewrite forallb_sort_acc. cbn. apply andb_true_r. Qed.

Lemma forallb_disjoint_swap l : forall acc,
  forallb (fun a => forallb (disjoint2 a) l) acc = forallb (fun b => forallb (disjoint2 b) acc) l.
Proof.
  induction l as [|h t IH]; intros acc; cbn [forallb].
  - induction acc; cbn; auto.
  - rewrite <- IH. induction acc as [|a acc IHa]; cbn [forallb]; [reflexivity|].
    rewrite IHa, (disjoint2_sym a h).
    destruct (disjoint2 h a), (forallb (disjoint2 a) t), (forallb (disjoint2 h) acc); reflexivity.
Qed.

Lemma pd_sort_acc l : forall acc,
  pairwise_disjoint (fold_left (fun a r => insert r a) l acc) =
  pairwise_disjoint l && pairwise_disjoint acc && forallb (fun a => forallb (disjoint2 a) acc) l.
Proof.
  induction l as [|h t IH]; intros acc; cbn [fold_left pairwise_disjoint forallb].
  - destruct (pairwise_disjoint acc); reflexivity.
  - rewrite IH, pd_insert.
    assert (E : forallb (fun a => forallb (disjoint2 a) (insert h acc)) t =
                forallb (disjoint2 h) t && forallb (fun a => forallb (disjoint2 a) acc) t).
    { clear. induction t as [|x t IHt]; cbn [forallb]; [reflexivity|].
      rewrite IHt, forallb_insert, (disjoint2_sym x h).
      destruct (disjoint2 h x), (forallb (disjoint2 x) acc), (forallb (disjoint2 h) t); reflexivity. }
    rewrite E.
    destruct (forallb (disjoint2 h) t), (pairwise_disjoint t), (forallb (disjoint2 h) acc),
      (pairwise_disjoint acc), (forallb (fun a => forallb (disjoint2 a) acc) t); reflexivity.
Qed.

Lemma pd_sort l : pairwise_disjoint (sort l) = pairwise_disjoint l.
Proof.
  unfold sort. rewrite pd_sort_acc. cbn [pairwise_disjoint].
  rewrite andb_true_r.
  assert (E : forallb (fun a : range => forallb (disjoint2 a) []) l = true)
    by (induction l; cbn; auto).
  rewrite E. apply andb_true_r.
Qed.

(* sorted by low bound + pairwise disjoint + well-formed  ->  strictly separated *)
Lemma sorted_disjoint_of l :
  sorted_fst l = true -> pairwise_disjoint l = true -> forallb wf_range l = true ->
  sorted_disjoint l = true.
Proof.
  induction l as [|a t IH]; intros Hs Hd Hw; [reflexivity|].
  cbn [sorted_fst pairwise_disjoint forallb sorted_disjoint] in *.
  apply andb_true_iff in Hs as [Hs1 Hs2]. apply andb_true_iff in Hd as [Hd1 Hd2].
  apply andb_true_iff in Hw as [Hw1 Hw2]. rewrite (IH Hs2 Hd2 Hw2), Hw1.
  destruct t as [|b t']; [reflexivity|].
  cbn [forallb] in Hd1, Hw2. unfold disjoint2, wf_range in *. lia.
Qed.

(* on a strictly separated list the compaction loop changes nothing *)
Lemma compact_loop_id n : forall l, sorted_disjoint l = true -> compact_loop n l = l.
Proof.
  induction n as [|n IH]; intros l H; [reflexivity|].
  destruct l as [|a [|b t]]; try reflexivity.
  cbn [compact_loop]. cbn [sorted_disjoint] in H.
  assert (Hab : fst a <= snd a /\ snd a < fst b /\ fst b <= snd b) by (unfold wf_range in H; lia).
  destruct (fst b <=? fst a) eqn:E1; [lia|].
  destruct (snd b <=? snd a) eqn:E2; [lia|].
  rewrite IH; [reflexivity|]. cbn [sorted_disjoint]. lia.
Qed.

Lemma compact_ok_lemma rl :
  pairwise_disjoint rl = true -> forallb wf_range rl = true ->
  sorted_disjoint (compact rl) = true /\ forall v, contains (compact rl) v = contains rl v.
Proof.
  intros Hd Hw. unfold compact.
  assert (Hsd : sorted_disjoint (sort rl) = true).
  { apply sorted_disjoint_of; [apply sorted_fst_sort| now rewrite pd_sort | now rewrite forallb_sort]. }
  cbv zeta. rewrite (compact_loop_id _ _ Hsd). split; [exact Hsd|]. intros v. apply contains_sort.
Qed.

(* ---- intersect ------------------------------------------------------------------------------ *)
Definition in_opt (o : option range) (v : Z) : bool :=
  match o with Some r => in_range r v | None => false end.

Lemma apply_trims_spec trims : forallb wf_range trims = true -> forall cur ins o ins' v,
  apply_trims cur ins trims = (o, ins') ->
  (in_opt o v = true -> in_range cur v = true /\ contains trims v = false) /\
  (contains ins' v = true -> in_range cur v = true \/ contains ins v = true) /\
  (contains ins v = true -> contains ins' v = true) /\
  (in_range cur v = true -> contains trims v = false -> in_opt o v = true \/ contains ins' v = true).
Proof.
  induction trims as [|r rest IH]; intros Hwf cur ins o ins' v H; cbn [apply_trims] in H.
  - inversion H; subst. cbn [in_opt contains existsb]. split; [|split; [|split]]; auto.
  - cbn [forallb] in Hwf. apply andb_true_iff in Hwf as [Hwr Hwf]. unfold wf_range in Hwr.
    specialize (IH Hwf). rewrite contains_cons. unfold in_range in *.
    destruct ((fst r <=? fst cur) && (snd cur <=? snd r)) eqn:C1.
    { inversion H; subst. cbn [in_opt]. split; [|split; [|split]]; try discriminate; auto. lia. }
    destruct ((fst cur <? fst r) && (snd r <? snd cur)) eqn:C2.
    { specialize (IH _ _ _ _ v H). cbn [fst snd] in IH. rewrite contains_cons in IH.
      unfold in_range in IH. cbn [fst snd] in IH.
      destruct IH as (I1 & I2 & I3 & I4). split; [|split; [|split]].
      - intros Ho. destruct (I1 Ho). lia.
      - intros Hc. destruct (I2 Hc) as [|Hx]; [lia|].
        apply orb_true_iff in Hx as [Hx|Hx]; [lia|auto].
      - intros Hc. apply I3. rewrite Hc. apply orb_true_r.
      - intros Hin Hnot.
        assert (Hc : (fst cur <=? v) && (v <=? fst r - 1) = true \/
                     (snd r + 1 <=? v) && (v <=? snd cur) = true) by lia.
        destruct Hc as [Hc|Hc]; [apply I4; [exact Hc|lia] | right; apply I3; rewrite Hc; reflexivity]. }
    destruct ((fst cur <? fst r) && (fst r <=? snd cur)) eqn:C3.
    { specialize (IH _ _ _ _ v H). unfold in_range in IH. cbn [fst snd] in IH.
      destruct IH as (I1 & I2 & I3 & I4). split; [|split; [|split]].
      - intros Ho. destruct (I1 Ho). lia.
      - intros Hc. destruct (I2 Hc); [lia|auto].
      - exact I3.
      - intros Hin Hnot. apply I4; lia. }
    destruct ((fst cur <=? snd r) && (snd r <? snd cur)) eqn:C4.
    { specialize (IH _ _ _ _ v H). unfold in_range in IH. cbn [fst snd] in IH.
      destruct IH as (I1 & I2 & I3 & I4). split; [|split; [|split]].
      - intros Ho. destruct (I1 Ho). lia.
      - intros Hc. destruct (I2 Hc); [lia|auto].
      - exact I3.
      - intros Hin Hnot. apply I4; lia. }
    specialize (IH _ _ _ _ v H). unfold in_range in IH.
    destruct IH as (I1 & I2 & I3 & I4). split; [|split; [|split]].
    + intros Ho. destruct (I1 Ho). lia.
    + exact I2.
    + exact I3.
    + intros Hin Hnot. apply I4; lia.
Qed.

Lemma isect_loop_spec fuel : forall work other res v,
  forallb wf_range other = true ->
  isect_loop fuel work other = Some res ->
  contains res v = contains work v && negb (contains other v).
Proof.
  induction fuel as [|f IH]; intros work other res v Hwf H.
  - destruct work; cbn in H; [inversion H; reflexivity|discriminate].
  - destruct work as [|t rest]; cbn [isect_loop] in H; [inversion H; reflexivity|].
    destruct (apply_trims t [] other) as [o ins] eqn:E.
    destruct (apply_trims_spec other Hwf t [] o ins v E) as (A1 & A2 & _ & A4).
    assert (Hres : exists res', isect_loop f (ins ++ rest) other = Some res' /\
                                contains res v = in_opt o v || contains res' v).
    { destruct o as [t'|].
      - destruct (isect_loop f (ins ++ rest) other) as [res'|] eqn:E2; [|discriminate].
        inversion H; subst. exists res'. split; reflexivity.
      - exists res. split; [exact H|reflexivity]. }
    destruct Hres as (res' & E2 & ->). rewrite (IH _ _ _ v Hwf E2), contains_app, contains_cons.
    cbn [contains existsb] in A2.
    destruct (in_opt o v) eqn:B1, (contains ins v) eqn:B2, (in_range t v) eqn:B3,
      (contains other v) eqn:B4, (contains rest v) eqn:B5; cbn; try reflexivity; exfalso;
      try (destruct A1 as [? ?]; [reflexivity|congruence]);
      try (destruct A2 as [?|?]; [reflexivity|congruence|congruence]);
      try (destruct A4 as [?|?]; [reflexivity|reflexivity|congruence|congruence]).
Qed.

Lemma intersect_ok_lemma work other res :
  forallb wf_range other = true ->
  intersect work other = Some res ->
  forall v, contains res v = contains work v && negb (contains other v).
Proof.
  unfold intersect. intros Hwf H v.
  destruct work as [|t rest]; [inversion H; reflexivity|].
  destruct other as [|o orest].
  - inversion H; subst. cbn [contains existsb]. now rewrite andb_true_r.
  - eapply isect_loop_spec; [exact Hwf|exact H].
Qed.
