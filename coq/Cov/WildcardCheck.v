(* Executable specification oracle (B) and correspondence comparison (A) for C19.
   Used by the generated cases files; no proofs here. *)
From Coq Require Import ZArith List Bool String.
From PV Require Import Cov.Rangelist Cov.Partition Cov.Wildcard.
Import ListNotations.
Open Scope Z_scope.

Inductive wspec := WStr (s : string) | WPair (v m : Z).

Record wcase := mkW {
  w_specs : list wspec;
  w_array : bool;
  w_nbins : option Z;      (* only for arrays *)
  w_width : Z              (* samples are 0 .. 2^w_width - 1 *)
}.
(* observation of the implementation: None = construction raised *)
Definition wobs := option (Z * list (list Z))%type.   (* n_bins, per sample the indices of the bins it hit *)

Definition to_vm (s : wspec) : option (Z * Z) :=
  match s with WStr s => str2bin s | WPair v m => Some (v, m) end.
Fixpoint all_some {A} (l : list (option A)) : option (list A) :=
  match l with
  | [] => Some []
  | None :: _ => None
  | Some x :: t => option_map (cons x) (all_some t)
  end.

Definition zrange (n : Z) : list Z := map Z.of_nat (seq 0 (Z.to_nat n)).
Fixpoint hit_indices_from (i : Z) (bins : list rlist) (v : Z) : list Z :=
  match bins with
  | [] => []
  | b :: t => if contains b v then i :: hit_indices_from (i + 1) t v else hit_indices_from (i + 1) t v
  end.
Definition hit_indices := hit_indices_from 0.

(* ---- model prediction (M) ---- *)
Definition w_model (c : wcase) : wobs :=
  match all_some (map to_vm (w_specs c)) with
  | None => None
  | Some vms =>
    let vals := zrange (2 ^ w_width c) in
    if w_array c then
      match wild_array_bins vms (w_nbins c) with
      | None => None
      | Some bins => Some (Z.of_nat (List.length bins), map (hit_indices bins) vals)
      end
    else Some (1, map (fun v => if wild_hit vms v then [0] else []) vals)
  end.

(* ---- specification (S), executable by enumeration, independent of str2bin / matchvals ---- *)
Definition bitlen (m : Z) : Z := if m <=? 0 then 0 else Z.log2 m + 1.
Definition bits_below (w : Z) : list Z := zrange w.
(* the pattern of a spec as a function bit index -> option bool, and its written width *)
Definition spec_pat (s : wspec) : option ((Z -> option bool) * Z) :=
  match s with
  | WStr str =>
    match str2digits str with
    | Some (b, ds) => Some (pat_bit b (rev ds), b * Z.of_nat (List.length ds))
    | None => None
    end
  | WPair v m => Some (fun i => if Z.testbit m i then Some (Z.testbit v i) else None, bitlen m)
  end.
Definition pat_agrees (p : Z -> option bool) (w : Z) (x : Z) : bool :=
  forallb (fun i => match p i with Some b => Bool.eqb (Z.testbit x i) b | None => true end) (bits_below w).
Definition spec_single (pats : list ((Z -> option bool) * Z)) (x : Z) : bool :=
  existsb (fun pw => pat_agrees (fst pw) (snd pw) x) pats.
Definition spec_array_match (pats : list ((Z -> option bool) * Z)) (x : Z) : bool :=
  existsb (fun pw => (x <? 2 ^ snd pw) && pat_agrees (fst pw) (snd pw) x) pats.

Fixpoint rank_of (vals : list Z) (x : Z) (i : Z) : option Z :=
  match vals with [] => None | y :: t => if y =? x then Some i else rank_of t x (i + 1) end.

Definition w_spec (c : wcase) : wobs :=
  match all_some (map spec_pat (w_specs c)) with
  | None => None
  | Some pats =>
    let vals := zrange (2 ^ w_width c) in
    if w_array c then
      let maxw := fold_right Z.max 0 (map snd pats) in
      let matching := filter (spec_array_match pats) (zrange (2 ^ maxw)) in
      let cnt := Z.of_nat (List.length matching) in
      match w_nbins c with
      | None => Some (cnt, map (fun v => match rank_of matching v 0 with Some r => [r] | None => [] end) vals)
      | Some n =>
        if n <=? 0 then None
        else if cnt <=? n then
          Some (cnt, map (fun v => match rank_of matching v 0 with Some r => [r] | None => [] end) vals)
        else
          let q := cnt / n in
          Some (n, map (fun v => match rank_of matching v 0 with
                                 | Some r => [Z.min (r / q) (n - 1)] | None => [] end) vals)
      end
    else Some (1, map (fun v => if spec_single pats v then [0] else []) vals)
  end.

(* ---- comparison ---- *)
Definition zlist_eqb (a b : list Z) : bool :=
  (Nat.eqb (List.length a) (List.length b)) && forallb (fun p => fst p =? snd p) (combine a b).
Definition zll_eqb (a b : list (list Z)) : bool :=
  (Nat.eqb (List.length a) (List.length b)) && forallb (fun p => zlist_eqb (fst p) (snd p)) (combine a b).
Definition wobs_eqb (a b : wobs) : bool :=
  match a, b with
  | None, None => true
  | Some (n1, h1), Some (n2, h2) => (n1 =? n2) && zll_eqb h1 h2
  | _, _ => false
  end.
(* 0 = model and spec agree with the observation; +1 = model differs (A); +2 = spec differs (B) *)
Definition w_check (c : wcase) (o : wobs) : Z :=
  (if wobs_eqb (w_model c) o then 0 else 1) + (if wobs_eqb (w_spec c) o then 0 else 2).
