(* Executable specification oracle (B) and correspondence comparison (A) for C13.  No proofs. *)
From Coq Require Import ZArith List Bool String QArith.
From PV Require Import Cov.Covergroup Cov.Save.
Import ListNotations.
Open Scope Z_scope.

Record c13obs := mkO13 {
  o_mem_before : memstate;
  o_mem_cov : list (Q * list Q);      (* per type: its in-memory coverage, and that of each of its instances *)
  o_report : list rtype;              (* get_coverage_report_model() *)
  o_text : list rtype;                (* parsed from get_coverage_report(details=True) *)
  o_xml : list rtype;                 (* write_coverage_db -> XmlFactory.read -> report builder *)
  o_mem_after : memstate
}.

Definition q_close (tol a b : Q) : bool := Qle_bool (a - b) tol && Qle_bool (b - a) tol.
Fixpoint list_eqb {A} (eqb : A -> A -> bool) (a b : list A) : bool :=
  match a, b with
  | [], [] => true
  | x :: s, y :: t => eqb x y && list_eqb eqb s t
  | _, _ => false
  end.
Fixpoint list_rel {A B} (rel : A -> B -> bool) (a : list A) (b : list B) : bool :=
  match a, b with
  | [], [] => true
  | x :: s, y :: t => rel x y && list_rel rel s t
  | _, _ => false
  end.
Definition bin_eqb (a b : binrec) : bool := String.eqb (fst a) (fst b) && (snd a =? snd b).
Definition bins_eqb := list_eqb bin_eqb.

(* compare two report trees: names, bins, counts (and weights / percentages within tol when asked) *)
Definition ritem_eqb (pct : option Q) (w : bool) (a b : ritem) : bool :=
  String.eqb (r_name a) (r_name b) && Bool.eqb (r_is_cross a) (r_is_cross b) &&
  bins_eqb (r_bins a) (r_bins b) && bins_eqb (r_ignore a) (r_ignore b) && bins_eqb (r_illegal a) (r_illegal b) &&
  (if w then r_weight a =? r_weight b else true) &&
  match pct with Some tol => q_close tol (r_cov a) (r_cov b) | None => true end.
Definition rcg_eqb (pct : option Q) (w : bool) (a b : rcg) : bool :=
  String.eqb (rc_name a) (rc_name b) && list_eqb (ritem_eqb pct w) (rc_items a) (rc_items b) &&
  (if w then rc_weight a =? rc_weight b else true) &&
  match pct with Some tol => q_close tol (rc_cov a) (rc_cov b) | None => true end.
Definition rtype_eqb (pct : option Q) (w : bool) (a b : rtype) : bool :=
  rcg_eqb pct w (rt_cg a) (rt_cg b) && list_eqb (rcg_eqb pct w) (rt_insts a) (rt_insts b).

(* ---- model (A): save of the in-memory state = what the three outputs contain ---- *)
Definition c13_model_ok (o : c13obs) : bool :=
  match save (o_mem_before o) with
  | None => false
  | Some r =>
    list_eqb (rtype_eqb (Some (1 # 1000000)) true) r (o_report o) &&
    list_eqb (rtype_eqb (Some (1 # 100)) false) r (o_text o) &&          (* the text shows two decimals *)
    list_eqb (rtype_eqb None false) r (o_xml o)                           (* the XML does not carry at_least *)
  end.

(* ---- specification (B), on the observations ---- *)
Definition item_eqb (a b : itemrec) : bool :=
  String.eqb (i_name a) (i_name b) && Bool.eqb (i_is_cross a) (i_is_cross b) && (i_weight a =? i_weight b) &&
  (i_at_least a =? i_at_least b) && bins_eqb (i_bins a) (i_bins b) && bins_eqb (i_ignore a) (i_ignore b) &&
  bins_eqb (i_illegal a) (i_illegal b).
Definition cg_eqb (a b : cgrec) : bool :=
  String.eqb (g_name a) (g_name b) && (g_weight a =? g_weight b) && list_eqb item_eqb (g_items a) (g_items b).
Definition mem_eqb : memstate -> memstate -> bool :=
  list_eqb (fun a b => cg_eqb (t_cg a) (t_cg b) && list_eqb cg_eqb (t_insts a) (t_insts b)).

Definition path_eqb (a b : path * binrec) : bool :=
  let '(t1, i1, n1, k1) := fst a in let '(t2, i2, n2, k2) := fst b in
  Nat.eqb t1 t2 && match i1, i2 with Some x, Some y => Nat.eqb x y | None, None => true | _, _ => false end &&
  String.eqb n1 n2 && (k1 =? k2) && bin_eqb (snd a) (snd b).
Fixpoint nodup_str (l : list string) : bool :=
  match l with [] => true | x :: t => negb (mem_str x t) && nodup_str t end.

Definition covs_agree (tol : Q) (rep : list rtype) (mc : list (Q * list Q)) : bool :=
  list_rel (fun (rt : rtype) (c : Q * list Q) =>
              q_close tol (rc_cov (rt_cg rt)) (fst c) &&
              list_rel (fun (ri : rcg) (q : Q) => q_close tol (rc_cov ri) q) (rt_insts rt) (snd c)) rep mc.

Definition c13_spec_ok (o : c13obs) : bool :=
  (* every type, instance, coverpoint, cross and bin with exactly the names and counts in memory *)
  list_eqb path_eqb (flat_rep (o_report o)) (flat_mem (o_mem_before o)) &&
  list_eqb path_eqb (flat_rep (o_text o)) (flat_mem (o_mem_before o)) &&
  list_eqb path_eqb (flat_rep (o_xml o)) (flat_mem (o_mem_before o)) &&
  Nat.eqb (List.length (o_report o)) (List.length (o_mem_before o)) &&
  list_rel (fun (rt : rtype) (t : typerec) => Nat.eqb (List.length (rt_insts rt)) (List.length (t_insts t)) &&
                                             String.eqb (rc_name (rt_cg rt)) (g_name (t_cg t)))
           (o_report o) (o_mem_before o) &&
  nodup_str (flat_map (fun rt => map rc_name (rt_insts rt)) (o_report o)) &&
  (* percentages agree with get_coverage() / get_inst_coverage() *)
  covs_agree (1 # 10000) (o_report o) (o_mem_cov o) &&
  covs_agree (1 # 100) (o_text o) (o_mem_cov o) &&
  (* reading / saving never alters coverage state *)
  mem_eqb (o_mem_before o) (o_mem_after o).

Definition c13_check (o : c13obs) : Z :=
  (if c13_model_ok o then 0 else 1) + (if c13_spec_ok o then 0 else 2).
