(* Model of impl/wildcard_bin_factory.py (str2bin, valmask2binlist), coverage.py wildcard_bin /
   wildcard_bin_array and CoverpointBinSingleWildcardModel.sample.  Executable definitions only. *)
From Coq Require Import ZArith List Bool Ascii String.
From PV Require Import Cov.Rangelist Cov.Partition.
Import ListNotations.
Open Scope Z_scope.

(* ---- str2bin --------------------------------------------------------------------------- *)
Inductive digit := Wild | Dig (d : Z).

Definition zofa (c : ascii) : Z := Z.of_nat (nat_of_ascii c).
(* int(c, base) for a single ASCII character; None = ValueError *)
Definition digit_val (c : ascii) : option Z :=
  let n := zofa c in
  if (48 <=? n) && (n <=? 57) then Some (n - 48)
  else if (97 <=? n) && (n <=? 102) then Some (n - 87)
  else if (65 <=? n) && (n <=? 70) then Some (n - 55)
  else None.
Definition is_wild (c : ascii) : bool :=
  let n := zofa c in (n =? 120) || (n =? 88) || (n =? 63).   (* x X ? *)
Definition is_skip (c : ascii) : bool := zofa c =? 95.        (* _ *)

(* characters -> digits of a base 2^b literal (the three `for c in val[2:]` loops) *)
Fixpoint digits_of (b : Z) (cs : list ascii) : option (list digit) :=
  match cs with
  | [] => Some []
  | c :: t =>
    if is_skip c then digits_of b t
    else if is_wild c then option_map (cons Wild) (digits_of b t)
    else match digit_val c with
         | Some d => if d <? 2 ^ b then option_map (cons (Dig d)) (digits_of b t) else None
         | None => None
         end
  end.

(* value <<= b ; mask <<= b ; if not wild: mask |= 2^b-1 ; value |= d *)
Definition shift_step (b : Z) (acc : Z * Z) (d : digit) : Z * Z :=
  match d with
  | Wild => (Z.shiftl (fst acc) b, Z.shiftl (snd acc) b)
  | Dig x => (Z.lor (Z.shiftl (fst acc) b) x, Z.lor (Z.shiftl (snd acc) b) (2 ^ b - 1))
  end.
Definition shift_in (b : Z) (ds : list digit) (acc : Z * Z) : Z * Z := fold_left (shift_step b) ds acc.

(* bits per digit from the prefix; None = "unknown base" exception *)
Definition base_bits (s : list ascii) : option (Z * list ascii) :=
  match s with
  | z :: k :: t =>
    if zofa z =? 48 then
      let n := zofa k in
      if (n =? 111) || (n =? 79) then Some (3, t)
      else if (n =? 120) || (n =? 88) then Some (4, t)
      else if (n =? 98) || (n =? 66) then Some (1, t)
      else None
    else None
  | _ => None
  end.

Definition str2digits (s : string) : option (Z * list digit) :=
  match base_bits (list_ascii_of_string s) with
  | Some (b, t) => option_map (fun ds => (b, ds)) (digits_of b t)
  | None => None
  end.
(* WildcardBinFactory.str2bin : (value, mask) *)
Definition str2bin (s : string) : option (Z * Z) :=
  match str2digits s with
  | Some (b, ds) => Some (shift_in b ds (0, 0))
  | None => None
  end.

(* ---- single wildcard bin ---------------------------------------------------------------- *)
(* CoverpointBinSingleWildcardModel.sample on the repaired code: (val & mask) == (value & mask) *)
Definition spec_hit (s : Z * Z) (v : Z) : bool := Z.land v (snd s) =? Z.land (fst s) (snd s).
Definition wild_hit (specs : list (Z * Z)) (v : Z) : bool := existsb (fun s => spec_hit s v) specs.

(* ---- valmask2binlist --------------------------------------------------------------------- *)
(* all x below 2^(bit length of mask) that agree with value on the mask bits, ascending;
   structural on the binary representation of the mask (least significant bit first) *)
Fixpoint matchvals (m : positive) (v : Z) : list Z :=
  match m with
  | xH => [Z.b2z (Z.odd v)]
  | xI m' => map (fun y => 2 * y + Z.b2z (Z.odd v)) (matchvals m' (Z.div2 v))
  | xO m' => flat_map (fun y => [2 * y; 2 * y + 1]) (matchvals m' (Z.div2 v))
  end.
(* merge of consecutive values into ranges (the `ranges[-1][1]+1 == val_t` test) *)
Fixpoint merge_runs (vs : list Z) : rlist :=
  match vs with
  | [] => []
  | x :: t =>
    match merge_runs t with
    | (lo, hi) :: r => if x + 1 =? lo then (x, hi) :: r else (x, x) :: (lo, hi) :: r
    | [] => [(x, x)]
    end
  end.
Definition valmask2binlist (value mask : Z) : rlist :=
  match mask with
  | Zpos m => merge_runs (matchvals m value)
  | _ => [(0, 0)]        (* mask = 0: the single value 0 *)
  end.

(* ---- wildcard_bin_array ------------------------------------------------------------------- *)
(* the "collapse overlaps" loop on the sorted list, on the repaired code (upper bound = max) *)
Fixpoint collapse (fuel : nat) (l : rlist) : rlist :=
  match fuel with
  | O => l
  | S f =>
    match l with
    | a :: b :: t =>
      if fst b <=? snd a + 1 then collapse f ((fst a, Z.max (snd a) (snd b)) :: t)
      else a :: collapse f (b :: t)
    | _ => l
    end
  end.
Definition wild_ranges (specs : list (Z * Z)) : rlist :=
  let l := sort (flat_map (fun s => valmask2binlist (fst s) (snd s)) specs) in
  collapse (List.length l) l.
(* nbins = None : one bin per value; Some n : mk_collection *)
Definition wild_array_bins (specs : list (Z * Z)) (nbins : option Z) : option (list rlist) :=
  let rl := wild_ranges specs in
  match nbins with
  | None => Some (per_value rl)
  | Some n => mk_collection rl n
  end.

(* ---- specification side ------------------------------------------------------------------- *)
(* v agrees with value on every bit set in mask *)
Definition agrees (value mask v : Z) : Prop :=
  forall i, 0 <= i -> Z.testbit mask i = true -> Z.testbit v i = Z.testbit value i.
(* bit i of the pattern written by the digits rds (least significant digit first, b bits per digit):
   Some x = the bit must be x, None = wildcard (or beyond the written pattern) *)
Fixpoint pat_bit (b : Z) (rds : list digit) (i : Z) : option bool :=
  match rds with
  | [] => None
  | d :: t =>
    if i <? b then match d with Wild => None | Dig x => Some (Z.testbit x i) end
    else pat_bit b t (i - b)
  end.
Definition wf_digit (b : Z) (d : digit) : bool :=
  match d with Wild => true | Dig x => (0 <=? x) && (x <? 2 ^ b) end.
Fixpoint ascending (l : list Z) : bool :=
  match l with
  | [] => true
  | x :: t => match t with [] => true | y :: _ => x <? y end && ascending t
  end.
(* bit length of a positive *)
Fixpoint psize (m : positive) : Z :=
  match m with xH => 1 | xO m' => 1 + psize m' | xI m' => 1 + psize m' end.
(* ranges separated by a gap: maximal runs *)
Fixpoint sorted_gapped (l : rlist) : bool :=
  match l with
  | [] => true
  | a :: t => wf_range a && match t with [] => true | b :: _ => snd a + 1 <? fst b end && sorted_gapped t
  end.
