(* Model of CoverpointBinCollectionModel.mk_collection (coverpoint_bin_collection_model.py):
   a bin collection is a list of bins, each bin a range list (its value set).
   Executable definitions only. *)
From Coq Require Import ZArith List Bool.
From PV Require Import Cov.Rangelist.
Import ListNotations.
Open Scope Z_scope.

(* the first q values of a range list, and what remains *)
Fixpoint split_vals (q : Z) (rl : rlist) : rlist * rlist :=
  match rl with
  | [] => ([], [])
  | r :: t =>
    if q <=? 0 then ([], rl)
    else if rsize r <=? q then
      let '(a, b) := split_vals (q - rsize r) t in (r :: a, b)
    else ([(fst r, fst r + q - 1)], (fst r + q, snd r) :: t)
  end.

(* n-1 bins of q values each, then one bin with everything that is left *)
Fixpoint part_loop (n1 : nat) (q : Z) (rl : rlist) : list rlist :=
  match n1 with
  | O => [rl]
  | S k => let '(a, b) := split_vals q rl in a :: part_loop k q b
  end.

(* one bin per value: a single value gives a single-value bin, a range r an array of rsize r bins *)
Fixpoint per_value_fuel (fuel : nat) (lo : Z) : list rlist :=
  match fuel with O => [] | S f => [(lo, lo)] :: per_value_fuel f (lo + 1) end.
Definition per_value_range (r : range) : list rlist := per_value_fuel (Z.to_nat (rsize r)) (fst r).
Definition per_value (rl : rlist) : list rlist := flat_map per_value_range rl.

(* mk_collection name rangelist n_bins ; None = the code raises (n_bins <= 0 divides by zero) *)
Definition mk_collection (rl : rlist) (n : Z) : option (list rlist) :=
  let nv := count rl in
  if n <? nv then
    if n <=? 0 then None
    else Some (part_loop (Z.to_nat (n - 1)) (nv / n) rl)
  else Some (per_value rl).

(* which bins a value hits *)
Definition bin_hits (bins : list rlist) (v : Z) : list bool := map (fun b => contains b v) bins.

(* k-th value (0-based) of a range list in list order *)
Fixpoint nth_val (rl : rlist) (k : Z) : option Z :=
  match rl with
  | [] => None
  | r :: t => if k <? rsize r then Some (fst r + k) else nth_val t (k - rsize r)
  end.
