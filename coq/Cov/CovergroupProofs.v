(* Proofs about the coverage registry model (Cov/Covergroup.v): registry invariants for every
   operation sequence, type data = sum of instance data, and the coverage arithmetic. *)
From Coq Require Import ZArith List Bool Lia ZifyBool QArith Lqa.
From PV Require Import Cov.Rangelist Cov.Partition Cov.Coverpoint Cov.Cross Cov.Covergroup.
Import ListNotations.
Open Scope Z_scope.

(* ------------------------------------------------------------------------------------------ *)
(* structural equality                                                                          *)
(* ------------------------------------------------------------------------------------------ *)
Lemma list_eqb_eq {A} (eqb : A -> A -> bool) :
  (forall x y, eqb x y = true <-> x = y) ->
  forall a b, list_eqb eqb a b = true <-> a = b.
Proof.
  intros Heq a. induction a as [|x s IH]; intros [|y t]; cbn.
  - split; reflexivity.
  - split; discriminate.
  - split; discriminate.
  - rewrite andb_true_iff, Heq, IH. split.
    + intros [-> ->]. reflexivity.
    + intros H. inversion H. split; reflexivity.
Qed.

Lemma range_eqb_eq a b : range_eqb a b = true <-> a = b.
Proof.
  unfold range_eqb. destruct a as [a1 a2], b as [b1 b2]. cbn.
  rewrite andb_true_iff, !Z.eqb_eq. split.
  - intros [-> ->]. reflexivity.
  - intros H. inversion H. split; reflexivity.
Qed.

(* structural equality of shapes is Leibniz equality *)
Lemma shape_eqb_eq a b : shape_eqb a b = true <-> a = b.
Proof.
  unfold shape_eqb. destruct a as [ca ta xa], b as [cb tb xb]. cbn.
  rewrite !andb_true_iff.
  assert (H1 : forall u v, list_eqb (list_eqb (list_eqb (list_eqb range_eqb))) u v = true <-> u = v).
  { apply list_eqb_eq, list_eqb_eq, list_eqb_eq, list_eqb_eq. exact range_eqb_eq. }
  assert (H2 : forall u v, list_eqb (list_eqb Nat.eqb) u v = true <-> u = v).
  { apply list_eqb_eq, list_eqb_eq. exact Nat.eqb_eq. }
  assert (H3 : forall u v, list_eqb (list_eqb Z.eqb) u v = true <-> u = v).
  { apply list_eqb_eq, list_eqb_eq. exact Z.eqb_eq. }
  rewrite H1, H2, H3. split.
  - intros [[-> ->] ->]. reflexivity.
  - intros H. inversion H. repeat split; reflexivity.
Qed.

(* ------------------------------------------------------------------------------------------ *)
(* list helpers                                                                                 *)
(* ------------------------------------------------------------------------------------------ *)
Lemma nth_error_snoc {A} (l : list A) x k y :
  nth_error (l ++ [x]) k = Some y ->
  nth_error l k = Some y \/ (k = length l /\ y = x).
Proof.
  intros H. destruct (Nat.lt_ge_cases k (length l)) as [Hlt|Hge].
  - left. rewrite nth_error_app1 in H by exact Hlt. exact H.
  - right. rewrite nth_error_app2 in H by exact Hge.
    destruct (k - length l)%nat as [|m] eqn:Hm.
    + cbn in H. inversion H. split; [lia|reflexivity].
    + cbn in H. destruct m; discriminate.
Qed.

Lemma nth_error_snoc_old {A} (l : list A) x k y :
  nth_error l k = Some y -> nth_error (l ++ [x]) k = Some y.
Proof.
  intros H. rewrite nth_error_app1; [exact H|]. apply nth_error_Some. congruence.
Qed.

Lemma nth_error_snoc_new {A} (l : list A) x : nth_error (l ++ [x]) (length l) = Some x.
Proof. rewrite nth_error_app2 by lia. rewrite Nat.sub_diag. reflexivity. Qed.

Lemma nth_error_update {A} (l : list A) k f j :
  nth_error (update l k f) j =
  if Nat.eqb j k then option_map f (nth_error l j) else nth_error l j.
Proof.
  revert k j. induction l as [|x t IH]; intros k j.
  - cbn. destruct k; destruct j; cbn; try reflexivity; destruct (Nat.eqb j k); reflexivity.
  - destruct k as [|k]; destruct j as [|j]; cbn; try reflexivity.
    apply IH.
Qed.

Lemma nth_error_update_neq {A} (l : list A) k f j :
  j <> k -> nth_error (update l k f) j = nth_error l j.
Proof.
  intros H. rewrite nth_error_update. destruct (Nat.eqb j k) eqn:E; [|reflexivity].
  apply Nat.eqb_eq in E. contradiction.
Qed.

Lemma nth_error_update_inv {A} (l : list A) k f j y :
  nth_error (update l k f) j = Some y ->
  (j = k /\ exists x, nth_error l j = Some x /\ y = f x) \/ (j <> k /\ nth_error l j = Some y).
Proof.
  rewrite nth_error_update. destruct (Nat.eqb j k) eqn:E.
  - apply Nat.eqb_eq in E. intros H. left. split; [exact E|].
    destruct (nth_error l j) as [x|]; cbn in H; [|discriminate].
    exists x. inversion H. split; reflexivity.
  - apply Nat.eqb_neq in E. intros H. right. split; assumption.
Qed.

(* sums over a list *)
Definition fsum {A} (g : A -> Z) (l : list A) : Z := fold_right (fun i a => g i + a) 0 l.

Lemma fsum_app {A} (g : A -> Z) l l' : fsum g (l ++ l') = fsum g l + fsum g l'.
Proof. induction l as [|x t IH]; cbn; [reflexivity|]. unfold fsum in IH. rewrite IH. unfold fsum. lia. Qed.

Lemma fsum_snoc {A} (g : A -> Z) l x : fsum g (l ++ [x]) = fsum g l + g x.
Proof. rewrite fsum_app. unfold fsum at 2. cbn. lia. Qed.

Lemma fsum_zero {A} (g : A -> Z) l : (forall x, In x l -> g x = 0) -> fsum g l = 0.
Proof.
  induction l as [|x t IH]; intros H; cbn; [reflexivity|].
  rewrite (H x) by (left; reflexivity). unfold fsum in IH. rewrite IH; [reflexivity|].
  intros y Hy. apply H. right. exact Hy.
Qed.

Lemma fsum_update {A} (g : A -> Z) l k f x :
  nth_error l k = Some x -> fsum g (update l k f) = fsum g l + g (f x) - g x.
Proof.
  revert k. induction l as [|y t IH]; intros k H.
  - destruct k; discriminate.
  - destruct k as [|k]; cbn in H |- *.
    + inversion H. subst. unfold fsum. lia.
    + specialize (IH k H). unfold fsum in IH. rewrite IH. unfold fsum. lia.
Qed.

Lemma sum_over_fsum r ti j b :
  sum_over r ti j b =
  fsum (fun i => if Nat.eqb (in_type i) ti then nth b (nth j (in_hits i) []) 0 else 0) (insts r).
Proof. reflexivity. Qed.

(* ------------------------------------------------------------------------------------------ *)
(* incr, incr_all, apply_deltas, zero_hits                                                      *)
(* ------------------------------------------------------------------------------------------ *)
Lemma incr_length hits i : length (incr hits i) = length hits.
Proof.
  revert i. induction hits as [|h t IH]; intros i; cbn; [reflexivity|].
  destruct (i =? 0); cbn; [reflexivity|]. rewrite IH. reflexivity.
Qed.

Lemma incr_all_length hits idxs : length (incr_all hits idxs) = length hits.
Proof.
  revert hits. induction idxs as [|i t IH]; intros hits; cbn; [reflexivity|].
  rewrite IH, incr_length. reflexivity.
Qed.

(* the increment at position b depends only on the length of the list *)
Lemma incr_delta a1 a2 i b :
  length a1 = length a2 ->
  nth b (incr a1 i) 0 - nth b a1 0 = nth b (incr a2 i) 0 - nth b a2 0.
Proof.
  revert a2 i b. induction a1 as [|x s IH]; intros [|y t] i b Hlen; cbn in Hlen; try discriminate.
  - reflexivity.
  - cbn. destruct (i =? 0).
    + destruct b; cbn; lia.
    + destruct b as [|b]; cbn; [lia|]. apply IH. lia.
Qed.

Lemma incr_all_delta idxs a1 a2 b :
  length a1 = length a2 ->
  nth b (incr_all a1 idxs) 0 - nth b a1 0 = nth b (incr_all a2 idxs) 0 - nth b a2 0.
Proof.
  revert a1 a2. induction idxs as [|i t IH]; intros a1 a2 Hlen; cbn; [lia|].
  assert (H1 := IH (incr a1 i) (incr a2 i)).
  rewrite !incr_length in H1. specialize (H1 Hlen).
  assert (H2 := incr_delta a1 a2 i b Hlen). lia.
Qed.

Lemma apply_deltas_dims h d :
  (length h <= length d)%nat -> map (@length Z) (apply_deltas h d) = map (@length Z) h.
Proof.
  unfold apply_deltas. revert d. induction h as [|x t IH]; intros d Hlen; [reflexivity|].
  destruct d as [|e d]; cbn in Hlen; [lia|].
  cbn. rewrite incr_all_length. f_equal. apply IH. lia.
Qed.

Lemma apply_deltas_delta h1 h2 d j b :
  map (@length Z) h1 = map (@length Z) h2 -> (length h1 <= length d)%nat ->
  nth b (nth j (apply_deltas h1 d) []) 0 - nth b (nth j h1 []) 0 =
  nth b (nth j (apply_deltas h2 d) []) 0 - nth b (nth j h2 []) 0.
Proof.
  unfold apply_deltas. revert h2 d j.
  induction h1 as [|x s IH]; intros [|y t] d j Hdim Hlen; cbn in Hdim; try discriminate.
  - reflexivity.
  - destruct d as [|e d]; cbn in Hlen; [lia|].
    inversion Hdim as [[Hx Hs]].
    destruct j as [|j]; cbn.
    + apply incr_all_delta. exact Hx.
    + apply IH; [exact Hs|lia].
Qed.

Lemma padded_length (deltas : list (list Z)) n :
  (n <= length (deltas ++ repeat [] (n - length deltas)))%nat.
Proof. rewrite app_length, repeat_length. lia. Qed.

Lemma zero_hits_dims l : map (@length Z) (zero_hits l) = map Z.to_nat l.
Proof.
  unfold zero_hits. rewrite map_map. apply map_ext. intros n. apply repeat_length.
Qed.

Lemma nth_repeat0 n b : nth b (repeat 0 n) 0 = 0.
Proof.
  revert b. induction n as [|n IH]; intros b; cbn; destruct b; try reflexivity. apply IH.
Qed.

Lemma zero_hits_nth l j b : nth b (nth j (zero_hits l) []) 0 = 0.
Proof.
  unfold zero_hits. revert j. induction l as [|n t IH]; intros j; cbn.
  - destruct j; destruct b; reflexivity.
  - destruct j as [|j]; [apply nth_repeat0|apply IH].
Qed.

(* ------------------------------------------------------------------------------------------ *)
(* find_type                                                                                    *)
(* ------------------------------------------------------------------------------------------ *)
Lemma find_type_some name sh ts i n :
  find_type name sh ts i = Some n ->
  exists t, (i <= n)%nat /\ nth_error ts (n - i) = Some t /\ ty_name t = name /\ ty_shape t = sh.
Proof.
  revert i. induction ts as [|t r IH]; intros i H; cbn in H; [discriminate|].
  destruct ((ty_name t =? name) && shape_eqb (ty_shape t) sh) eqn:E.
  - inversion H. subst n. exists t. rewrite Nat.sub_diag. cbn.
    apply andb_true_iff in E. destruct E as [E1 E2].
    apply Z.eqb_eq in E1. apply shape_eqb_eq in E2. auto.
  - destruct (IH (S i) H) as [t' [Hle [Hn [Hname Hsh]]]].
    exists t'. split; [lia|]. split; [|auto].
    replace (n - i)%nat with (S (n - S i)) by lia. exact Hn.
Qed.

Lemma find_type_none name sh ts i :
  find_type name sh ts i = None ->
  forall t, In t ts -> ~ (ty_name t = name /\ ty_shape t = sh).
Proof.
  revert i. induction ts as [|t r IH]; intros i H t' Hin; cbn in H; [destruct Hin|].
  destruct ((ty_name t =? name) && shape_eqb (ty_shape t) sh) eqn:E; [discriminate|].
  destruct Hin as [<-|Hin].
  - intros [H1 H2]. apply andb_false_iff in E. destruct E as [E|E].
    + apply Z.eqb_neq in E. contradiction.
    + apply shape_eqb_eq in H2. congruence.
  - exact (IH (S i) H t' Hin).
Qed.

(* ------------------------------------------------------------------------------------------ *)
(* the combined invariant                                                                       *)
(* ------------------------------------------------------------------------------------------ *)
Definition hits_dims (sh : shape) (h : list (list Z)) : Prop :=
  map (@length Z) h = map Z.to_nat (shape_nbins sh).

Definition inv (r : reg) : Prop :=
  (forall k i, nth_error (insts r) k = Some i ->
     hits_dims (in_shape i) (in_hits i) /\
     exists t, nth_error (types r) (in_type i) = Some t /\ ty_name t = in_name i /\ ty_shape t = in_shape i) /\
  (forall a t, nth_error (types r) a = Some t -> hits_dims (ty_shape t) (ty_hits t)) /\
  (forall a b ta tb, nth_error (types r) a = Some ta -> nth_error (types r) b = Some tb ->
     ty_name ta = ty_name tb -> ty_shape ta = ty_shape tb -> a = b) /\
  (forall ti t j b, nth_error (types r) ti = Some t ->
     nth b (nth j (ty_hits t) []) 0 = sum_over r ti j b).

Lemma inv_init : inv (mkReg [] []).
Proof.
  repeat split; cbn; intros.
  - destruct k; discriminate.
  - destruct k; discriminate.
  - destruct a; discriminate.
  - destruct a; discriminate.
  - destruct ti; discriminate.
Qed.

Lemma inv_step_new r name sh items : inv r -> inv (step r (New name sh items)).
Proof.
  intros [Hi [Ht [Hu Hs]]]. cbn.
  destruct (find_type name sh (types r) 0) as [ti|] eqn:Hf.
  - (* attached to an existing type *)
    destruct (find_type_some _ _ _ _ _ Hf) as [t0 [_ [Hn0 [Hname0 Hsh0]]]].
    rewrite Nat.sub_0_r in Hn0.
    split; [|split; [|split]]; cbn [types insts].
    + intros k i Hk. apply nth_error_snoc in Hk. destruct Hk as [Hk|[_ ->]].
      * exact (Hi k i Hk).
      * cbn. split; [apply zero_hits_dims|]. exists t0. auto.
    + exact Ht.
    + exact Hu.
    + intros ti' t j b Hti. rewrite (Hs ti' t j b Hti).
      rewrite !sum_over_fsum. cbn [insts]. rewrite fsum_snoc.
      cbn [in_type in_hits].
      rewrite zero_hits_nth. destruct (Nat.eqb ti ti'); lia.
  - (* a new type *)
    assert (Hnone := find_type_none _ _ _ _ Hf).
    split; [|split; [|split]]; cbn [types insts].
    + intros k i Hk. apply nth_error_snoc in Hk. destruct Hk as [Hk|[_ ->]].
      * destruct (Hi k i Hk) as [Hd [t [Hn Hrest]]]. split; [exact Hd|].
        exists t. split; [apply nth_error_snoc_old; exact Hn|exact Hrest].
      * cbn. split; [apply zero_hits_dims|].
        eexists. split; [apply nth_error_snoc_new|]. cbn. auto.
    + intros a t Ha. apply nth_error_snoc in Ha. destruct Ha as [Ha|[_ ->]].
      * exact (Ht a t Ha).
      * cbn. apply zero_hits_dims.
    + intros a b ta tb Ha Hb Hname Hsh.
      apply nth_error_snoc in Ha. apply nth_error_snoc in Hb.
      destruct Ha as [Ha|[Ha ->]]; destruct Hb as [Hb|[Hb ->]]; cbn in *.
      * exact (Hu a b ta tb Ha Hb Hname Hsh).
      * exfalso. apply (Hnone ta); [eapply nth_error_In; exact Ha|]. auto.
      * exfalso. apply (Hnone tb); [eapply nth_error_In; exact Hb|]. auto.
      * congruence.
    + intros ti t j b Hti. rewrite sum_over_fsum. cbn [insts]. rewrite fsum_snoc.
      cbn [in_type in_hits].
      rewrite zero_hits_nth.
      apply nth_error_snoc in Hti. destruct Hti as [Hti|[-> ->]].
      * rewrite (Hs ti t j b Hti). rewrite sum_over_fsum.
        destruct (Nat.eqb (length (types r)) ti); lia.
      * cbn. rewrite zero_hits_nth. rewrite fsum_zero.
        { destruct (Nat.eqb (length (types r)) (length (types r))); lia. }
        intros x Hx. apply In_nth_error in Hx. destruct Hx as [k Hk].
        destruct (Hi k x Hk) as [_ [t [Hn _]]].
        assert (Hlt : (in_type x < length (types r))%nat) by (apply nth_error_Some; congruence).
        destruct (Nat.eqb (in_type x) (length (types r))) eqn:E; [|reflexivity].
        apply Nat.eqb_eq in E. lia.
Qed.

Lemma inv_step_sample r k deltas : inv r -> inv (step r (Sample k deltas)).
Proof.
  intros Hinv. assert (Hinv' := Hinv). destruct Hinv' as [Hi [Ht [Hu Hs]]].
  cbn [step].
  destruct (nth_error (insts r) k) as [ins|] eqn:Hk; [|exact Hinv].
  set (d := deltas ++ repeat [] (length (in_hits ins) - length deltas)).
  assert (Hdlen : (length (in_hits ins) <= length d)%nat) by apply padded_length.
  destruct (Hi k ins Hk) as [Hdi [t0 [Hn0 [Hname0 Hsh0]]]].
  assert (Hdt0 := Ht _ _ Hn0).
  assert (Hdims : map (@length Z) (ty_hits t0) = map (@length Z) (in_hits ins)).
  { unfold hits_dims in Hdi, Hdt0. rewrite Hdi, Hdt0, Hsh0. reflexivity. }
  assert (Hlen : length (ty_hits t0) = length (in_hits ins)).
  { rewrite <- (map_length (@length Z) (ty_hits t0)), Hdims. apply map_length. }
  set (ft := fun t => mkTy (ty_name t) (ty_shape t) (ty_items t) (apply_deltas (ty_hits t) d)).
  set (fi := fun i => mkIn (in_name i) (in_shape i) (in_type i) (in_items i) (apply_deltas (in_hits i) d)).
  (* a type of the new registry comes from a type of the old one with the same name and shape *)
  assert (Hty : forall a t, nth_error (update (types r) (in_type ins) ft) a = Some t ->
            exists t', nth_error (types r) a = Some t' /\ ty_name t = ty_name t' /\ ty_shape t = ty_shape t' /\
                       map (@length Z) (ty_hits t) = map (@length Z) (ty_hits t')).
  { intros a t Ha. apply nth_error_update_inv in Ha.
    destruct Ha as [[-> [x [Hx ->]]]|[_ Ha]].
    - exists x. split; [exact Hx|]. cbn. split; [reflexivity|]. split; [reflexivity|].
      rewrite Hn0 in Hx. inversion Hx. subst x.
      apply apply_deltas_dims. lia.
    - exists t. auto. }
  split; [|split; [|split]]; cbn [types insts].
  - intros k' i Hk'. apply nth_error_update_inv in Hk'.
    assert (Hold : forall i0, nth_error (insts r) k' = Some i0 ->
              exists t, nth_error (update (types r) (in_type ins) ft) (in_type i0) = Some t /\
                        ty_name t = in_name i0 /\ ty_shape t = in_shape i0).
    { intros i0 Hi0. destruct (Hi k' i0 Hi0) as [_ [t [Hn [Hname Hsh]]]].
      rewrite nth_error_update. rewrite Hn.
      destruct (Nat.eqb (in_type i0) (in_type ins)); cbn; eexists; split; try reflexivity; cbn; auto. }
    destruct Hk' as [[-> [x [Hx ->]]]|[_ Hk']].
    + rewrite Hk in Hx. inversion Hx. subst x. cbn. split.
      * unfold hits_dims. rewrite apply_deltas_dims by exact Hdlen. exact Hdi.
      * apply (Hold ins Hk).
    + split; [exact (proj1 (Hi k' i Hk'))|]. apply (Hold i Hk').
  - intros a t Ha. destruct (Hty a t Ha) as [t' [Ha' [_ [Hsh Hd]]]].
    unfold hits_dims. rewrite Hd, Hsh. exact (Ht a t' Ha').
  - intros a b ta tb Ha Hb Hname Hsh.
    destruct (Hty a ta Ha) as [ta' [Ha' [Hna [Hsa _]]]].
    destruct (Hty b tb Hb) as [tb' [Hb' [Hnb [Hsb _]]]].
    apply (Hu a b ta' tb' Ha' Hb'); congruence.
  - intros ti t j b Hti. rewrite sum_over_fsum. cbn [insts].
    rewrite (fsum_update _ _ _ _ _ Hk). cbn [fi in_type in_hits].
    rewrite <- sum_over_fsum.
    apply nth_error_update_inv in Hti.
    destruct Hti as [[-> [x [Hx ->]]]|[Hne Hti]].
    + rewrite Hn0 in Hx. inversion Hx. subst x. cbn [ft ty_hits].
      rewrite Nat.eqb_refl. rewrite <- (Hs _ _ j b Hn0).
      assert (Hdl := apply_deltas_delta (ty_hits t0) (in_hits ins) d j b Hdims).
      lia.
    + rewrite (Hs _ _ j b Hti).
      destruct (Nat.eqb (in_type ins) ti) eqn:E; [|lia].
      apply Nat.eqb_eq in E. congruence.
Qed.

Lemma inv_step r o : inv r -> inv (step r o).
Proof. destruct o; [apply inv_step_new|apply inv_step_sample]. Qed.

Lemma inv_fold ops r : inv r -> inv (fold_left step ops r).
Proof.
  revert r. induction ops as [|o t IH]; intros r H; cbn; [exact H|].
  apply IH, inv_step, H.
Qed.

Lemma run_inv ops : inv (run ops).
Proof. apply inv_fold, inv_init. Qed.

(* ------------------------------------------------------------------------------------------ *)
(* registry invariants, for every operation sequence                                            *)
(* ------------------------------------------------------------------------------------------ *)
(* every instance points at an existing type with its own name and shape; hits have the dimensions
   of the shape *)
Definition reg_wf (r : reg) : Prop :=
  (forall k i, nth_error (insts r) k = Some i ->
     exists t, nth_error (types r) (in_type i) = Some t /\ ty_name t = in_name i /\ ty_shape t = in_shape i /\
               map (@length Z) (in_hits i) = map (@length Z) (ty_hits t)) /\
  (forall a b ta tb, nth_error (types r) a = Some ta -> nth_error (types r) b = Some tb ->
     ty_name ta = ty_name tb -> ty_shape ta = ty_shape tb -> a = b).

Lemma inv_wf r : inv r -> reg_wf r.
Proof.
  intros [Hi [Ht [Hu _]]]. split; [|exact Hu].
  intros k i Hk. destruct (Hi k i Hk) as [Hd [t [Hn [Hname Hsh]]]].
  exists t. repeat (split; [assumption|]).
  assert (Hdt := Ht _ _ Hn). unfold hits_dims in Hd, Hdt. rewrite Hd, Hdt, Hsh. reflexivity.
Qed.

Lemma run_wf ops : reg_wf (run ops).
Proof. apply inv_wf, run_inv. Qed.

(* instances of the same name are attached to the same type exactly when their shapes are equal *)
Lemma same_type_iff_same_shape ops k1 k2 i1 i2 :
  nth_error (insts (run ops)) k1 = Some i1 -> nth_error (insts (run ops)) k2 = Some i2 ->
  (in_type i1 = in_type i2 <-> (in_name i1 = in_name i2 /\ in_shape i1 = in_shape i2)).
Proof.
  intros H1 H2. destruct (run_wf ops) as [Hi Hu].
  destruct (Hi _ _ H1) as [t1 [Hn1 [Hname1 [Hsh1 _]]]].
  destruct (Hi _ _ H2) as [t2 [Hn2 [Hname2 [Hsh2 _]]]].
  split.
  - intros E. rewrite E in Hn1. rewrite Hn1 in Hn2. inversion Hn2. subst t2.
    split; congruence.
  - intros [En Es]. apply (Hu _ _ t1 t2 Hn1 Hn2); congruence.
Qed.

(* sampling instance k touches only instance k and its type *)
Lemma sample_isolated r k deltas ins :
  nth_error (insts r) k = Some ins ->
  (forall j, j <> k -> nth_error (insts (step r (Sample k deltas))) j = nth_error (insts r) j) /\
  (forall t, t <> in_type ins -> nth_error (types (step r (Sample k deltas))) t = nth_error (types r) t).
Proof.
  intros Hk. cbn [step]. rewrite Hk. cbn [insts types]. split.
  - intros j Hj. apply nth_error_update_neq. exact Hj.
  - intros t Ht. apply nth_error_update_neq. exact Ht.
Qed.

(* type data = bin-wise sum of the hits of its instances, for any interleaving of New and Sample *)
Lemma type_is_sum ops ti t j b :
  nth_error (types (run ops)) ti = Some t ->
  nth b (nth j (ty_hits t) []) 0 = sum_over (run ops) ti j b.
Proof.
  intros H. destruct (run_inv ops) as [_ [_ [_ Hs]]]. apply Hs. exact H.
Qed.

(* ------------------------------------------------------------------------------------------ *)
(* coverage arithmetic                                                                          *)
(* ------------------------------------------------------------------------------------------ *)
Definition le_hits (a b : list Z) : Prop := Forall2 Z.le a b.

Lemma le_hits_refl a : le_hits a a.
Proof. induction a; constructor; [lia|assumption]. Qed.

Lemma le_hits_trans a b c : le_hits a b -> le_hits b c -> le_hits a c.
Proof.
  intros H. revert c. induction H as [|x y s t Hxy Hst IH]; intros c Hc; inversion Hc; subst.
  - constructor.
  - constructor; [lia|]. apply IH. assumption.
Qed.

Lemma le_hits_length a b : le_hits a b -> length a = length b.
Proof. intros H. induction H; cbn; [reflexivity|congruence]. Qed.

Lemma incr_mono hits i : le_hits hits (incr hits i).
Proof.
  revert i. induction hits as [|h t IH]; intros i; cbn; [constructor|].
  destruct (i =? 0).
  - constructor; [lia|apply le_hits_refl].
  - constructor; [lia|apply IH].
Qed.

Lemma incr_all_mono hits idxs : le_hits hits (incr_all hits idxs).
Proof.
  revert hits. induction idxs as [|i t IH]; intros hits; cbn; [apply le_hits_refl|].
  eapply le_hits_trans; [apply incr_mono|apply IH].
Qed.

Lemma covered_bounds al hits : 0 <= covered al hits <= Z.of_nat (length hits).
Proof.
  unfold covered. induction hits as [|h t IH]; cbn [filter length]; [lia|].
  destruct (al <=? h); cbn [length]; lia.
Qed.

Lemma covered_full al hits :
  covered al hits = Z.of_nat (length hits) <-> Forall (fun h => al <= h) hits.
Proof.
  induction hits as [|h t IH].
  - split; [constructor|reflexivity].
  - assert (Hb := covered_bounds al t). unfold covered in *. cbn [filter length].
    destruct (al <=? h) eqn:E; cbn [length].
    + split.
      * intros H. constructor; [lia|]. apply IH. lia.
      * intros H. inversion H; subst. apply IH in H3. lia.
    + split.
      * intros H. lia.
      * intros H. inversion H; subst. lia.
Qed.

Lemma covered_mono al a b : le_hits a b -> covered al a <= covered al b.
Proof.
  unfold covered. intros H. induction H as [|x y s t Hxy Hst IH]; [lia|].
  cbn [filter]. destruct (al <=? x) eqn:E1; destruct (al <=? y) eqn:E2; cbn [length]; lia.
Qed.

Lemma len_pos (hits : list Z) : hits <> [] -> 0 < Z.of_nat (length hits).
Proof. destruct hits; [congruence|cbn [length]; lia]. Qed.

Lemma item_cov_range it hits : hits <> [] -> (0 <= item_cov it hits /\ item_cov it hits <= 100)%Q.
Proof.
  intros Hne. assert (Hp := len_pos hits Hne). assert (Hb := covered_bounds (it_at_least it) hits).
  unfold item_cov, Qle. cbn [Qnum Qden]. rewrite Z2Pos.id by exact Hp. split; lia.
Qed.

Lemma item_cov_mono it a b : a <> [] -> le_hits a b -> (item_cov it a <= item_cov it b)%Q.
Proof.
  intros Hne Hle. assert (Hp := len_pos a Hne).
  assert (Hlen : length b = length a) by (symmetry; apply le_hits_length; exact Hle).
  assert (Hm := covered_mono (it_at_least it) a b Hle).
  unfold item_cov, Qle. cbn [Qnum Qden]. rewrite Hlen. rewrite Z2Pos.id by exact Hp. nia.
Qed.

Lemma item_cov_full it hits : hits <> [] ->
  ((item_cov it hits == 100)%Q <-> Forall (fun h => it_at_least it <= h) hits).
Proof.
  intros Hne. assert (Hp := len_pos hits Hne).
  rewrite <- covered_full.
  unfold item_cov, Qeq. cbn [Qnum Qden]. rewrite Z2Pos.id by exact Hp. split; lia.
Qed.

(* --- weighted sums --- *)
Lemma ws_cons it h items hits :
  weighted_sum (it :: items) (h :: hits) =
  (inject_Z (it_weight it) * item_cov it h + weighted_sum items hits)%Q.
Proof. reflexivity. Qed.

Lemma tw_cons it items : total_weight (it :: items) = it_weight it + total_weight items.
Proof. reflexivity. Qed.

Lemma inject_Z_nonneg z : 0 <= z -> (0 <= inject_Z z)%Q.
Proof. intros H. unfold Qle. cbn. lia. Qed.

Lemma inject_Z_pos z : 0 < z -> (0 < inject_Z z)%Q.
Proof. intros H. unfold Qlt. cbn. lia. Qed.

Lemma tw_nonneg items : Forall (fun it => 0 <= it_weight it) items -> 0 <= total_weight items.
Proof.
  intros H. induction H as [|it t Hw Ht IH]; [cbn; lia|]. rewrite tw_cons. lia.
Qed.

Lemma ws_bounds items hits :
  length items = length hits -> Forall (fun it => 0 <= it_weight it) items ->
  Forall (fun h : list Z => h <> []) hits ->
  (0 <= weighted_sum items hits /\ weighted_sum items hits <= 100 * inject_Z (total_weight items))%Q.
Proof.
  revert hits. induction items as [|it items IH]; intros [|h hits] Hlen Hw Hne; cbn in Hlen; try discriminate.
  - cbn. split; [apply Qle_refl|]. unfold Qle. cbn. lia.
  - inversion Hw as [|? ? Hw1 Hw2]; subst. inversion Hne as [|? ? Hne1 Hne2]; subst.
    destruct (IH hits) as [IH1 IH2]; [lia|assumption|assumption|].
    destruct (item_cov_range it h Hne1) as [Hc1 Hc2].
    assert (HW := inject_Z_nonneg _ Hw1).
    rewrite ws_cons, tw_cons, inject_Z_plus.
    set (W := inject_Z (it_weight it)) in *. set (c := item_cov it h) in *.
    set (S := weighted_sum items hits) in *. set (T := inject_Z (total_weight items)) in *.
    split; nra.
Qed.

Lemma ws_mono items a b :
  length items = length a -> Forall (fun it => 0 <= it_weight it) items ->
  Forall (fun h : list Z => h <> []) a -> Forall2 le_hits a b ->
  (weighted_sum items a <= weighted_sum items b)%Q.
Proof.
  intros Hlen Hw Hne Hle. revert items Hlen Hw.
  induction Hle as [|x y s t Hxy Hst IH]; intros items Hlen Hw.
  - destruct items; [apply Qle_refl|discriminate Hlen].
  - destruct items as [|it items]; [discriminate Hlen|]. cbn in Hlen.
    inversion Hw as [|? ? Hw1 Hw2]; subst. inversion Hne as [|? ? Hne1 Hne2]; subst.
    assert (IH' := IH Hne2 items ltac:(lia) Hw2).
    assert (Hc := item_cov_mono it x y Hne1 Hxy).
    assert (HW := inject_Z_nonneg _ Hw1).
    rewrite !ws_cons.
    set (W := inject_Z (it_weight it)) in *.
    set (c1 := item_cov it x) in *. set (c2 := item_cov it y) in *.
    set (S1 := weighted_sum items s) in *. set (S2 := weighted_sum items t) in *.
    nra.
Qed.

Definition full_P (it : item) (h : list Z) : Prop :=
  0 < it_weight it -> Forall (fun x => it_at_least it <= x) h.

Lemma ws_full items hits :
  length items = length hits -> Forall (fun it => 0 <= it_weight it) items ->
  Forall (fun h : list Z => h <> []) hits ->
  ((weighted_sum items hits == 100 * inject_Z (total_weight items))%Q <-> Forall2 full_P items hits).
Proof.
  revert hits. induction items as [|it items IH]; intros [|h hits] Hlen Hw Hne; cbn in Hlen; try discriminate.
  - split; [constructor|]. intros _. cbn. reflexivity.
  - inversion Hw as [|? ? Hw1 Hw2]; subst. inversion Hne as [|? ? Hne1 Hne2]; subst.
    assert (Hlen' : length items = length hits) by lia.
    specialize (IH hits Hlen' Hw2 Hne2).
    destruct (ws_bounds items hits Hlen' Hw2 Hne2) as [HS1 HS2].
    destruct (item_cov_range it h Hne1) as [Hc1 Hc2].
    assert (Hfull := item_cov_full it h Hne1).
    assert (HW := inject_Z_nonneg _ Hw1).
    rewrite ws_cons, tw_cons, inject_Z_plus.
    set (W := inject_Z (it_weight it)) in *. set (c := item_cov it h) in *.
    set (S := weighted_sum items hits) in *. set (T := inject_Z (total_weight items)) in *.
    split.
    + intros Heq.
      assert (HS : (S == 100 * T)%Q) by nra.
      constructor; [|apply IH; exact HS].
      intros Hpos. apply Hfull.
      assert (HWp : (0 < W)%Q) by (apply inject_Z_pos; exact Hpos).
      nra.
    + intros HF. inversion HF as [|? ? ? ? HP HF']; subst.
      apply IH in HF'.
      destruct (Z.eq_dec (it_weight it) 0) as [E0|Ene].
      * assert (HW0 : (W == 0)%Q) by (unfold W; rewrite E0; reflexivity).
        nra.
      * assert (Hc : (c == 100)%Q) by (apply Hfull, HP; lia).
        nra.
Qed.

Definition items_ok (items : list item) (hits : list (list Z)) : Prop :=
  length items = length hits /\ Forall (fun it => 0 <= it_weight it) items /\ 0 < total_weight items /\
  Forall (fun h => h <> []) hits.

Lemma cg_cov_pos items hits :
  0 < total_weight items ->
  cg_cov items hits = (weighted_sum items hits / inject_Z (total_weight items))%Q.
Proof.
  intros H. unfold cg_cov. destruct (total_weight items <=? 0) eqn:E; [|reflexivity].
  apply Z.leb_le in E. lia.
Qed.

Lemma cg_cov_range items hits : items_ok items hits -> (0 <= cg_cov items hits /\ cg_cov items hits <= 100)%Q.
Proof.
  intros [Hlen [Hw [Hpos Hne]]]. rewrite cg_cov_pos by exact Hpos.
  destruct (ws_bounds items hits Hlen Hw Hne) as [H1 H2].
  assert (HT := inject_Z_pos _ Hpos).
  split.
  - apply Qle_shift_div_l; [exact HT|]. rewrite Qmult_0_l. exact H1.
  - apply Qle_shift_div_r; [exact HT|]. exact H2.
Qed.

Lemma cg_cov_mono items a b : items_ok items a -> Forall2 le_hits a b -> (cg_cov items a <= cg_cov items b)%Q.
Proof.
  intros [Hlen [Hw [Hpos Hne]]] Hle. rewrite !cg_cov_pos by exact Hpos.
  assert (Hm := ws_mono items a b Hlen Hw Hne Hle).
  assert (HT := inject_Z_pos _ Hpos).
  unfold Qdiv. apply Qmult_le_compat_r; [exact Hm|].
  apply Qlt_le_weak, Qinv_lt_0_compat, HT.
Qed.

(* 100 exactly when every bin of every item that carries weight is covered *)
Lemma cg_cov_full items hits : items_ok items hits ->
  ((cg_cov items hits == 100)%Q <->
   Forall2 (fun it h => 0 < it_weight it -> Forall (fun x => it_at_least it <= x) h) items hits).
Proof.
  intros [Hlen [Hw [Hpos Hne]]]. rewrite cg_cov_pos by exact Hpos.
  assert (HT := inject_Z_pos _ Hpos).
  assert (HT0 : ~ (inject_Z (total_weight items) == 0)%Q).
  { intros E. rewrite E in HT. exact (Qlt_irrefl _ HT). }
  fold full_P.
  change (Forall2 (fun it h => full_P it h) items hits) with (Forall2 full_P items hits).
  rewrite <- (ws_full items hits Hlen Hw Hne).
  split.
  - intros H. rewrite <- H. field. exact HT0.
  - intros H. rewrite H. field. exact HT0.
Qed.
