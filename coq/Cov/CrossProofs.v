(* Proofs about the cross-coverage model (Cov/Cross.v): row-major numbering, coverpoint keys,
   no stale marker, counting. *)
From Coq Require Import ZArith List Bool Lia ZifyBool.
From PV Require Import Cov.Rangelist Cov.Partition Cov.Coverpoint Cov.Cross.
Import ListNotations.
Open Scope Z_scope.

(* ------------------------------------------------------------------------------------------ *)
(* row-major numbering is a bijection between valid tuples and [0, product of dims) *)
Definition valid_tuple (dims t : list Z) : Prop :=
  length t = length dims /\ Forall2 (fun d k => 0 <= k < d) dims t.

Lemma valid_tuple_nil : valid_tuple [] [].
Proof. split; [reflexivity | constructor]. Qed.

Lemma valid_tuple_cons d ds k ks :
  valid_tuple (d :: ds) (k :: ks) <-> (0 <= k < d /\ valid_tuple ds ks).
Proof.
  unfold valid_tuple; split.
  - intros [Hl Hf]. inversion Hf; subst. simpl in Hl. repeat split; try lia; auto.
  - intros [Hk [Hl Hf]]. split; [simpl; lia | constructor; auto].
Qed.

Lemma valid_tuple_inv dims t :
  valid_tuple dims t ->
  (dims = [] /\ t = []) \/
  (exists d ds k ks, dims = d :: ds /\ t = k :: ks /\ 0 <= k < d /\ valid_tuple ds ks).
Proof.
  intros [Hl Hf]. destruct Hf as [| d k ds ks Hk Hf].
  - left; auto.
  - right. exists d, ds, k, ks. simpl in Hl. repeat split; auto; lia.
Qed.

Lemma cross_index_bounds dims t : valid_tuple dims t -> 0 <= cross_index dims t < cross_nbins dims.
Proof.
  revert t. induction dims as [| d ds IH]; intros t Hv.
  - destruct (valid_tuple_inv _ _ Hv) as [[_ Ht] | (d & ds & k & ks & Hd & _)]; [| discriminate].
    subst. simpl. unfold cross_nbins; simpl. lia.
  - destruct (valid_tuple_inv _ _ Hv) as [[Hd _] | (d' & ds' & k & ks & Hd & Ht & Hk & Hv')];
      [discriminate |].
    inversion Hd; subst d' ds' t; clear Hd.
    specialize (IH ks Hv'). unfold cross_nbins in *. simpl.
    set (P := fold_right Z.mul 1 ds) in *.
    set (ci := cross_index ds ks) in *. clearbody P ci. nia.
Qed.

Lemma cross_tuple_index dims t : valid_tuple dims t -> cross_tuple dims (cross_index dims t) = t.
Proof.
  revert t. induction dims as [| d ds IH]; intros t Hv.
  - destruct (valid_tuple_inv _ _ Hv) as [[_ Ht] | (d & ds & k & ks & Hd & _)]; [| discriminate].
    subst. reflexivity.
  - destruct (valid_tuple_inv _ _ Hv) as [[Hd _] | (d' & ds' & k & ks & Hd & Ht & Hk & Hv')];
      [discriminate |].
    inversion Hd; subst d' ds' t; clear Hd.
    pose proof (cross_index_bounds ds ks Hv') as Hb. unfold cross_nbins in Hb.
    specialize (IH ks Hv'). simpl.
    set (P := fold_right Z.mul 1 ds) in *.
    set (ci := cross_index ds ks) in *.
    assert (HP : 0 < P) by lia.
    assert (Hdiv : (k * P + ci) / P = k).
    { symmetry. apply Z.div_unique with (r := ci); lia. }
    assert (Hmod : (k * P + ci) mod P = ci).
    { symmetry. apply Z.mod_unique with (q := k); lia. }
    rewrite Hdiv, Hmod, IH. reflexivity.
Qed.

Lemma cross_nbins_pos dims : Forall (fun d => 0 < d) dims -> 0 < cross_nbins dims.
Proof.
  unfold cross_nbins. induction 1 as [| d ds Hd Hf IH]; simpl; [lia | nia].
Qed.

Lemma cross_index_tuple dims idx :
  Forall (fun d => 0 < d) dims -> 0 <= idx < cross_nbins dims ->
  valid_tuple dims (cross_tuple dims idx) /\ cross_index dims (cross_tuple dims idx) = idx.
Proof.
  intros Hpos. revert idx. induction Hpos as [| d ds Hd Hf IH]; intros idx Hidx.
  - unfold cross_nbins in Hidx; simpl in *. split; [apply valid_tuple_nil | lia].
  - pose proof (cross_nbins_pos ds Hf) as HP.
    unfold cross_nbins in *. simpl in *.
    set (P := fold_right Z.mul 1 ds) in *.
    pose proof (Z.mod_pos_bound idx P HP) as Hm.
    pose proof (Z.div_mod idx P ltac:(lia)) as Hdm.
    destruct (IH (idx mod P) Hm) as [Hv Hci].
    assert (Hq : 0 <= idx / P < d).
    { split; [apply Z.div_pos; lia | apply Z.div_lt_upper_bound; lia]. }
    split.
    + apply valid_tuple_cons. split; auto.
    + rewrite Hci. lia.
Qed.

Lemma cross_index_inj dims t u :
  valid_tuple dims t -> valid_tuple dims u -> cross_index dims t = cross_index dims u -> t = u.
Proof.
  intros Ht Hu He.
  rewrite <- (cross_tuple_index dims t Ht), <- (cross_tuple_index dims u Hu), He. reflexivity.
Qed.

(* ------------------------------------------------------------------------------------------ *)
(* coverpoint keys *)
Lemma last_hit_some bins : forall i v acc k,
  last_hit i bins v acc = Some k ->
  acc = Some k \/
  (i <= k < i + Z.of_nat (length bins) /\ contains (nth (Z.to_nat (k - i)) bins []) v = true).
Proof.
  induction bins as [| b t IH]; intros i v acc k H.
  - left. exact H.
  - cbn [last_hit] in H. apply IH in H. destruct H as [H | [Hr Hc]].
    + destruct (contains b v) eqn:Hb.
      * inversion H; subst k. right. split.
        -- cbn [length]. lia.
        -- replace (i - i) with 0 by lia. exact Hb.
      * left. exact H.
    + right. split.
      * cbn [length]. lia.
      * replace (Z.to_nat (k - i)) with (S (Z.to_nat (k - (i + 1)))) by lia.
        exact Hc.
Qed.

Lemma last_hit_none bins : forall i v acc,
  last_hit i bins v acc = None <->
  (acc = None /\ forallb (fun b => negb (contains b v)) bins = true).
Proof.
  induction bins as [| b t IH]; intros i v acc.
  - simpl. split; [intros H; auto | intros [H _]; exact H].
  - cbn [last_hit forallb]. rewrite IH. destruct (contains b v) eqn:Hb; simpl.
    + split; [intros [H _]; discriminate | intros [_ H]; discriminate].
    + reflexivity.
Qed.

Lemma model_hit_some m v i :
  model_hit m v = Some i ->
  0 <= i < Z.of_nat (length m) /\ contains (nth (Z.to_nat i) m []) v = true.
Proof.
  unfold model_hit. intros H. apply last_hit_some in H.
  destruct H as [H | [Hr Hc]]; [discriminate |].
  rewrite Z.sub_0_r in Hc. split; [lia | exact Hc].
Qed.

Lemma model_hit_none m v :
  model_hit m v = None <-> forallb (fun b => negb (contains b v)) m = true.
Proof.
  unfold model_hit. rewrite last_hit_none. split; [intros [_ H]; exact H | auto].
Qed.

Lemma cp_nbins_nonneg c : 0 <= cp_nbins c.
Proof. unfold cp_nbins. induction c as [| m ct IH]; simpl; lia. Qed.

Lemma cp_nbins_cons m ct : cp_nbins (m :: ct) = Z.of_nat (length m) + cp_nbins ct.
Proof. reflexivity. Qed.

Lemma key_of_some c v : forall off k,
  key_of c (cp_sample_markers c v) off = Some k ->
  off <= k < off + cp_nbins c /\ contains (nth (Z.to_nat (k - off)) (concat c) []) v = true.
Proof.
  induction c as [| m ct IH]; intros off k H.
  - discriminate.
  - cbn [cp_sample_markers map key_of] in H. rewrite cp_nbins_cons. cbn [concat].
    pose proof (cp_nbins_nonneg ct) as Hnn.
    destruct (model_hit m v) as [i |] eqn:Hm.
    + inversion H; subst k. apply model_hit_some in Hm. destruct Hm as [Hi Hc].
      split; [lia |].
      replace (off + i - off) with i by lia.
      rewrite app_nth1 by lia. exact Hc.
    + fold (cp_sample_markers ct v) in H. apply IH in H. destruct H as [Hr Hc].
      split; [lia |].
      replace (Z.to_nat (k - off))
        with (length m + Z.to_nat (k - (off + Z.of_nat (length m))))%nat by lia.
      rewrite app_nth2_plus. exact Hc.
Qed.

Lemma key_of_none c v : forall off,
  key_of c (cp_sample_markers c v) off = None <->
  forallb (fun b => negb (contains b v)) (concat c) = true.
Proof.
  induction c as [| m ct IH]; intros off.
  - simpl. split; reflexivity.
  - cbn [cp_sample_markers map key_of concat]. rewrite forallb_app.
    fold (cp_sample_markers ct v).
    destruct (model_hit m v) as [i |] eqn:Hm.
    + split; [discriminate |]. intros H. apply andb_true_iff in H. destruct H as [H _].
      apply model_hit_none in H. congruence.
    + rewrite IH. apply model_hit_none in Hm. rewrite Hm. simpl. reflexivity.
Qed.

(* the bin a coverpoint reports for a value is one of its bins *)
Lemma cp_key_bounds c v k : cp_key c v = Some k -> 0 <= k < cp_nbins c.
Proof.
  unfold cp_key. intros H. apply key_of_some in H. lia.
Qed.

(* ... and it is a bin containing the value *)
Lemma cp_key_contains c v k :
  cp_key c v = Some k -> contains (nth (Z.to_nat k) (concat c) []) v = true.
Proof.
  unfold cp_key. intros H. apply key_of_some in H. destruct H as [_ H].
  rewrite Z.sub_0_r in H. exact H.
Qed.

(* no key exactly when no flat bin of the coverpoint contains the value *)
Lemma cp_key_none c v :
  cp_key c v = None <-> forallb (fun b => negb (contains b v)) (concat c) = true.
Proof. unfold cp_key. apply key_of_none. Qed.

(* ------------------------------------------------------------------------------------------ *)
(* NO STALE MARKER *)
Lemma xstep_keys cps : forall (mks : list markers) (vals : list (Z * bool)),
  length mks = length cps -> length vals = length cps ->
  map (fun p : cpm * markers * (Z * bool) =>
         if snd (snd p) then key_of (fst (fst p)) (snd (fst p)) 0 else None)
      (combine (combine cps
         (map (fun p : cpm * markers * (Z * bool) =>
                 if snd (snd p) then cp_sample_markers (fst (fst p)) (fst (snd p)) else snd (fst p))
              (combine (combine cps mks) vals))) vals)
  = map (fun p : cpm * (Z * bool) => if snd (snd p) then cp_key (fst p) (fst (snd p)) else None)
        (combine cps vals).
Proof.
  induction cps as [| c ct IH]; intros mks vals Hm Hv.
  - reflexivity.
  - destruct mks as [| mk mkt]; [discriminate |].
    destruct vals as [| [v g] vt]; [discriminate |].
    simpl in Hm, Hv. cbn [combine map fst snd]. f_equal.
    + destruct g; reflexivity.
    + apply IH; lia.
Qed.

(* the cross counters after a step depend on the sample only, never on the markers left by
   earlier samples *)
Lemma xstep_hits cps st s :
  length (st_markers st) = length cps -> length (xs_vals s) = length cps ->
  st_hits (xstep cps st s) =
    match xs_tuple cps s with
    | Some t => incr (st_hits st) (cross_index (map cp_nbins cps) t)
    | None => st_hits st
    end.
Proof.
  intros Hm Hv. unfold xstep, xs_tuple. cbn [st_hits].
  rewrite (xstep_keys cps (st_markers st) (xs_vals s) Hm Hv).
  destruct (xs_iff s); reflexivity.
Qed.

Lemma xstep_markers_length cps st s :
  length (st_markers st) = length cps -> length (xs_vals s) = length cps ->
  length (st_markers (xstep cps st s)) = length cps.
Proof.
  intros Hm Hv. unfold xstep. cbn [st_markers].
  rewrite map_length, !combine_length. lia.
Qed.

(* ------------------------------------------------------------------------------------------ *)
(* counting: cross bin t holds the number of samples whose tuple is t *)
Lemma xs_tuple_valid_aux cps : forall (vals : list (Z * bool)) t,
  length vals = length cps ->
  all_some_z (map (fun p : cpm * (Z * bool) =>
                     if snd (snd p) then cp_key (fst p) (fst (snd p)) else None)
                  (combine cps vals)) = Some t ->
  valid_tuple (map cp_nbins cps) t.
Proof.
  induction cps as [| c ct IH]; intros vals t Hl H.
  - simpl in H. inversion H. apply valid_tuple_nil.
  - destruct vals as [| [v g] vt]; [discriminate |].
    simpl in Hl. cbn [combine map fst snd all_some_z] in H.
    destruct g; [| discriminate].
    destruct (cp_key c v) as [k |] eqn:Hk; [| discriminate].
    destruct (all_some_z _) as [r |] eqn:Hr in H; [| discriminate].
    inversion H; subst t. cbn [map]. apply valid_tuple_cons. split.
    + eapply cp_key_bounds; eauto.
    + apply (IH vt); [lia | exact Hr].
Qed.

Lemma xs_tuple_valid cps s t :
  length (xs_vals s) = length cps -> xs_tuple cps s = Some t -> valid_tuple (map cp_nbins cps) t.
Proof.
  intros Hl H. unfold xs_tuple in H. destruct (xs_iff s); [| discriminate].
  eapply xs_tuple_valid_aux; eauto.
Qed.

Lemma incr_length hits : forall i, length (incr hits i) = length hits.
Proof.
  induction hits as [| h t IH]; intros i; [reflexivity |].
  cbn [incr]. destruct (i =? 0); simpl; [reflexivity | rewrite IH; reflexivity].
Qed.

Lemma incr_nth hits : forall i j,
  (j < length hits)%nat ->
  nth j (incr hits i) 0 = if Z.of_nat j =? i then nth j hits 0 + 1 else nth j hits 0.
Proof.
  induction hits as [| h t IH]; intros i j Hj; simpl in Hj; [lia |].
  cbn [incr]. destruct (Z.eqb_spec i 0) as [Hi | Hi].
  - destruct j as [| j'].
    + destruct (Z.eqb_spec (Z.of_nat 0) i) as [_ | Hn]; [reflexivity | lia].
    + destruct (Z.eqb_spec (Z.of_nat (S j')) i) as [He | _]; [lia | reflexivity].
  - destruct j as [| j'].
    + destruct (Z.eqb_spec (Z.of_nat 0) i) as [He | _]; [lia | reflexivity].
    + cbn [nth]. rewrite IH by lia.
      destruct (Z.eqb_spec (Z.of_nat j') (i - 1)) as [He | Hn];
        destruct (Z.eqb_spec (Z.of_nat (S j')) i) as [He' | Hn']; try lia; reflexivity.
Qed.

Lemma tuple_eqb_eq a : forall b, tuple_eqb a b = true <-> a = b.
Proof.
  unfold tuple_eqb. induction a as [| x a IH]; intros b.
  - destruct b; simpl; split; auto; discriminate.
  - destruct b as [| y b]; [simpl; split; discriminate |].
    cbn [length combine forallb fst snd Nat.eqb]. specialize (IH b).
    rewrite andb_true_iff in IH. rewrite !andb_true_iff. rewrite Z.eqb_eq. split.
    + intros [Hl [Hxy Hf]]. subst y. f_equal. apply IH. auto.
    + intros H. inversion H; subst y b. 
      destruct IH as [_ IH]. specialize (IH eq_refl). tauto.
Qed.

Lemma xfold_inv cps n samples : forall st,
  Forall (fun s => length (xs_vals s) = length cps) samples ->
  length (st_markers st) = length cps -> length (st_hits st) = n ->
  length (st_markers (fold_left (xstep cps) samples st)) = length cps /\
  length (st_hits (fold_left (xstep cps) samples st)) = n.
Proof.
  induction samples as [| s rest IH]; intros st Hf Hm Hh.
  - simpl. auto.
  - inversion Hf as [| s' r' Hs Hr]; subst. cbn [fold_left]. apply IH; auto.
    + apply xstep_markers_length; auto.
    + rewrite xstep_hits by auto. destruct (xs_tuple cps s); [rewrite incr_length |]; auto.
Qed.

Lemma xinit_markers_length cps : length (st_markers (xinit cps)) = length cps.
Proof. unfold xinit. cbn [st_markers]. apply map_length. Qed.

Lemma xinit_hits_length cps :
  length (st_hits (xinit cps)) = Z.to_nat (cross_nbins (map cp_nbins cps)).
Proof. unfold xinit. cbn [st_hits]. rewrite map_length, seq_length. reflexivity. Qed.

Lemma xrun_length cps samples :
  Forall (fun s => length (xs_vals s) = length cps) samples ->
  length (xrun cps samples) = Z.to_nat (cross_nbins (map cp_nbins cps)).
Proof.
  intros Hf. unfold xrun.
  apply (xfold_inv cps _ samples (xinit cps) Hf (xinit_markers_length cps) (xinit_hits_length cps)).
Qed.

Lemma xcount_cons cps s rest t :
  xcount cps (s :: rest) t =
  (if match xs_tuple cps s with Some u => tuple_eqb u t | None => false end then 1 else 0)
  + xcount cps rest t.
Proof.
  unfold xcount. cbn [filter].
  destruct (match xs_tuple cps s with Some u => tuple_eqb u t | None => false end);
    cbn [length]; lia.
Qed.

Lemma xfold_counts cps samples t : forall st,
  Forall (fun s => length (xs_vals s) = length cps) samples ->
  length (st_markers st) = length cps ->
  length (st_hits st) = Z.to_nat (cross_nbins (map cp_nbins cps)) ->
  valid_tuple (map cp_nbins cps) t ->
  nth (Z.to_nat (cross_index (map cp_nbins cps) t))
      (st_hits (fold_left (xstep cps) samples st)) 0
  = nth (Z.to_nat (cross_index (map cp_nbins cps) t)) (st_hits st) 0 + xcount cps samples t.
Proof.
  induction samples as [| s rest IH]; intros st Hf Hm Hh Hv.
  - simpl. unfold xcount. simpl. lia.
  - inversion Hf as [| s' r' Hs Hr]; subst. cbn [fold_left].
    pose proof (cross_index_bounds _ _ Hv) as Hb.
    assert (Hm' : length (st_markers (xstep cps st s)) = length cps)
      by (apply xstep_markers_length; auto).
    assert (Hh' : length (st_hits (xstep cps st s))
                  = Z.to_nat (cross_nbins (map cp_nbins cps))).
    { rewrite xstep_hits by auto. destruct (xs_tuple cps s); [rewrite incr_length |]; auto. }
    rewrite (IH (xstep cps st s) Hr Hm' Hh' Hv).
    rewrite xcount_cons, xstep_hits by auto.
    destruct (xs_tuple cps s) as [u |] eqn:Hu.
    + pose proof (xs_tuple_valid cps s u Hs Hu) as Hvu.
      rewrite incr_nth by lia. rewrite Z2Nat.id by lia.
      destruct (Z.eqb_spec (cross_index (map cp_nbins cps) t) (cross_index (map cp_nbins cps) u))
        as [He | Hn].
      * apply cross_index_inj in He; auto. subst u.
        assert (Ht : tuple_eqb t t = true) by (apply tuple_eqb_eq; reflexivity).
        rewrite Ht. lia.
      * destruct (tuple_eqb u t) eqn:Ht.
        -- apply tuple_eqb_eq in Ht. subst u. contradiction.
        -- lia.
    + lia.
Qed.

Lemma nth_map_const0 {A} (l : list A) i : nth i (map (fun _ => 0) l) 0 = 0.
Proof.
  revert i. induction l as [| a l IH]; intros [| i]; simpl; auto.
Qed.

Lemma xrun_counts cps samples t :
  Forall (fun s => length (xs_vals s) = length cps) samples ->
  valid_tuple (map cp_nbins cps) t ->
  nth (Z.to_nat (cross_index (map cp_nbins cps) t)) (xrun cps samples) 0 = xcount cps samples t.
Proof.
  intros Hf Hv. unfold xrun.
  rewrite (xfold_counts cps samples t (xinit cps) Hf
             (xinit_markers_length cps) (xinit_hits_length cps) Hv).
  unfold xinit. cbn [st_hits]. rewrite nth_map_const0. lia.
Qed.
