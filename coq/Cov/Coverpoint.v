(* Model of coverage.py bin / bin_array / coverpoint.build_cov_model and CoverpointModel.sample /
   coverage_ev (coverpoint_model.py, coverpoint_bin_*_model.py).  Executable definitions only.
   A built coverpoint is three lists of flat bins (regular, ignore, illegal); a flat bin is the
   range list of the values it counts. *)
From Coq Require Import ZArith List Bool.
From PV Require Import Cov.Rangelist Cov.Partition.
Import ListNotations.
Open Scope Z_scope.

Inductive binspec :=
| BBin (rl : rlist)                   (* vsc.bin(v, [lo,hi], ...) *)
| BArray (n : option Z) (rl : rlist). (* vsc.bin_array([n] or [], v, [lo,hi], ...) *)

Inductive cpkind :=
| KBins (bs : list binspec)
| KAutoInt (sg : bool) (w : Z) (auto_bin_max : Z)
| KAutoEnum (vals : list Z).

Record cpspec := mkCp {
  cp_kind : cpkind;
  cp_ignore : list rlist;     (* one entry per ignore bin *)
  cp_illegal : list rlist
}.

Definition is_nil {A} (l : list A) : bool := match l with [] => true | _ => false end.

(* exclude_bins of build_cov_model *)
Definition exclude_of (c : cpspec) : rlist :=
  let ex := concat (cp_ignore c) ++ concat (cp_illegal c) in
  if is_nil ex then [] else compact ex.

Definition trim (rl ex : rlist) : option rlist :=
  if is_nil ex then Some rl else intersect rl ex.

(* build_cov_model of one bin specification: the flat bins it contributes (None = exception) *)
Definition build_binspec (ex : rlist) (b : binspec) : option (list rlist) :=
  match b with
  | BBin rl =>
    match trim (compact rl) ex with
    | Some r => Some (if is_nil r then [] else [r])
    | None => None
    end
  | BArray n rl =>
    match trim (compact rl) ex with
    | Some r =>
      match n with
      | None => Some (per_value r)
      | Some k => mk_collection r k
      end
    | None => None
    end
  end.

Fixpoint concat_opt {A} (l : list (option (list A))) : option (list A) :=
  match l with
  | [] => Some []
  | None :: _ => None
  | Some x :: t => match concat_opt t with Some r => Some (x ++ r) | None => None end
  end.

Definition type_range (sg : bool) (w : Z) : range :=
  if sg then (- 2 ^ (w - 1), 2 ^ (w - 1) - 1) else (0, 2 ^ w - 1).

Definition build_regular (c : cpspec) : option (list rlist) :=
  let ex := exclude_of c in
  match cp_kind c with
  | KBins bs => concat_opt (map (build_binspec ex) bs)
  | KAutoInt sg w m =>
    match trim [type_range sg w] ex with
    | Some r => mk_collection r m
    | None => None
    end
  | KAutoEnum vals =>
    match trim (compact (map (fun v => (v, v)) vals)) ex with
    | Some r => Some (map (fun x => [(fst x, fst x)]) r)
    | None => None
    end
  end.

(* dedicated ignore / illegal bins: bin.build_cov_model with no exclusions *)
Definition build_special (l : list rlist) : list rlist :=
  flat_map (fun rl => let r := compact rl in if is_nil r then [] else [r]) l.

Record cpmodel := mkM { m_bins : list rlist; m_ignore : list rlist; m_illegal : list rlist }.
Definition cp_build (c : cpspec) : option cpmodel :=
  match build_regular c with
  | Some bs => Some (mkM bs (build_special (cp_ignore c)) (build_special (cp_illegal c)))
  | None => None
  end.

(* ---- sampling ---- *)
Definition sample := (Z * bool)%type.       (* value, iff condition *)
Definition bump (bins : list rlist) (hits : list Z) (s : sample) : list Z :=
  if snd s then map (fun p => if contains (fst p) (fst s) then snd p + 1 else snd p) (combine bins hits)
  else hits.
Definition zeros {A} (l : list A) : list Z := map (fun _ => 0) l.
Definition run_hits (bins : list rlist) (samples : list sample) : list Z :=
  fold_left (bump bins) samples (zeros bins).

Record cpobs := mkO { o_hits : list Z; o_ignore : list Z; o_illegal : list Z }.
Definition cp_run (m : cpmodel) (samples : list sample) : cpobs :=
  mkO (run_hits (m_bins m) samples) (run_hits (m_ignore m) samples) (run_hits (m_illegal m) samples).

(* number of samples taken while iff held whose value lies in the set *)
Definition count_in (set : rlist) (samples : list sample) : Z :=
  Z.of_nat (length (filter (fun s => snd s && contains set (fst s)) samples)).
