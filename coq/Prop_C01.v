(* C01 — returned values satisfy every active hard constraint and their declared type.
   Property theorems only. *)
From Coq Require Import ZArith List Bool Lia.
From PV Require Import Common.Bits Rand.BV Rand.Expr Rand.Lower Rand.Typing Rand.LowerProofs Rand.Randset Rand.RandsetProofs.
Import ListNotations.
Open Scope Z_scope.

(* operator lowering: on the typed fragment the term built for an expression evaluates to exactly its integer meaning
   (context-width propagation, signed-iff-both-signed extension, comparison/division chosen by signedness) *)
Theorem C01_lower_expr_correct : forall G B rho e ctx psg w v,
  fields_ok G B rho -> wt G ctx psg e = true ->
  sem G rho ctx psg e = Some (w, v) -> bv_eval rho (lower_e G B ctx e) = Some (w, v).
Proof. intros G B rho e ctx psg w v. exact (lower_expr_correct G B rho e ctx psg w v). Qed.
Print Assumptions C01_lower_expr_correct.

(* statements (expression, if / else-if / else, implies, unique, nested scopes): the 1-bit term is true exactly when the
   statement holds *)
Theorem C01_lower_stmt_correct : forall G B rho s b t,
  fields_ok G B rho -> wt_s G s = true -> holds G rho s = Some b -> lower_s G B false s = Some t ->
  bv_true rho t = Some b.
Proof. intros G B rho s b t. exact (lower_stmt_correct G B rho s b t). Qed.
Print Assumptions C01_lower_stmt_correct.

(* signed division / remainder as lowered (SMT-LIB sdiv / srem) are truncating division on the signed readings *)
Theorem C01_sdiv : forall w a b, 1 <= w -> 0 <= a < 2 ^ w -> 0 <= b < 2 ^ w -> b <> 0 ->
  sdiv w a b = wrapU w (Z.quot (toS w a) (toS w b)) /\ srem w a b = wrapU w (Z.rem (toS w a) (toS w b)).
Proof. intros. split; [apply sdiv_quot | apply srem_rem]; assumption. Qed.
Print Assumptions C01_sdiv.

(* the three corners excluded by `wt`, each with a witness on which the code's lowering and the integer meaning differ *)
Definition G2 : fenv := [mkF 8 true; mkF 8 true; mkF 8 false].
Definition B2 : list fbuild := [mkFB true 0; mkFB true 0; mkFB true 0].
(* (c1) (s0 < s1) == 1 with signed s0, s1: the code types the comparison signed 1-bit and sign-extends true to -1 *)
Theorem C01_corner_rel_signed_refuted :
  let e := EBin Eq (EBin Lt (EField 0) (EField 1)) (ELit 1 true 32) in
  let rho := fun id : nat => match id with O => 1 | _ => 2 end in
  wt G2 (-1) false e = false /\
  sem G2 rho (-1) false e = Some (1, 1) /\ bv_eval rho (lower_e G2 B2 (-1) e) = Some (1, 0).
Proof. vm_compute. repeat split; reflexivity. Qed.
Print Assumptions C01_corner_rel_signed_refuted.
(* (c2) (~u) == 250 with an 8-bit unsigned u = 5: the code inverts at 8 bits, then zero-extends *)
Theorem C01_corner_not_refuted :
  let e := EBin Eq (ENot (EField 2)) (ELit 250 true 32) in
  let rho := fun id : nat => 5 in
  wt G2 (-1) false e = false /\
  sem G2 rho (-1) false e = Some (1, 0) /\ bv_eval rho (lower_e G2 B2 (-1) e) = Some (1, 1).
Proof. vm_compute. repeat split; reflexivity. Qed.
Print Assumptions C01_corner_not_refuted.
(* (c3) u64 > -1 : a negative Python literal extended beyond 32 bits in an unsigned comparison *)
Theorem C01_corner_literal_refuted :
  let G := [mkF 40 false] in
  let e := EBin Gt (EField 0) (ELit (-1) true 32) in
  let rho := fun id : nat => 2 ^ 33 in
  wt G (-1) false e = false /\
  sem G rho (-1) false e = Some (1, 1) /\ bv_eval rho (lower_e G [mkFB true 0] (-1) e) = Some (1, 0).
Proof. vm_compute. repeat split; reflexivity. Qed.
Print Assumptions C01_corner_literal_refuted.

(* non-vacuity: a well-formed program and an assignment on which it holds / fails *)
Example C01_example :
  let s := SIf (EBin Lt (EField 0) (ELit 0 true 32)) [SExpr (EBin Eq (EPart 2 3 1) (ELit 2 true 32))]
               (Some [SExpr (e_in (EField 2) [(ELit 1 true 32, None); (ELit 5 true 32, Some (ELit 9 true 32))])]) in
  wt_s G2 s = true /\
  holds G2 (fun id : nat => match id with O => -3 | S (S O) => 5 | _ => 0 end) s = Some true /\
  holds G2 (fun id : nat => match id with O => 3 | S (S O) => 4 | _ => 0 end) s = Some false.
Proof. vm_compute. repeat split; reflexivity. Qed.

(* C01 proper: whatever model the solver returns for the hard terms (together with anything else asserted: enum
   domains, the bit patterns tried while randomising), the values read back satisfy every well-formed hard statement
   whose meaning is defined, lie in their declared types, and random enum fields hold declared values *)
From PV Require Import Rand.Solve Rand.SolveProofs.
Theorem C01_solve_sound : forall G B enums rho sigma stmts,
  fields_ok G B rho ->
  (forall t, In t (hard_terms G B stmts ++ enum_terms G B enums) -> bv_true sigma t = Some true) ->
  forall s, In s stmts -> wt_s G s = true -> holds G (readback G B rho sigma) s <> Some false.
Proof. exact solve_sound. Qed.
Print Assumptions C01_solve_sound.
Theorem C01_values_in_type : forall G B rho sigma id d,
  nth_error G id = Some d -> 1 <= f_w d -> in_type (f_sg d) (f_w d) (rho id) = true ->
  in_type (f_sg d) (f_w d) (readback G B rho sigma id) = true.
Proof. exact readback_in_type. Qed.
Print Assumptions C01_values_in_type.
Theorem C01_enum_values_declared : forall G B enums rho sigma stmts id b vals,
  fields_ok G B rho -> length enums = length B ->
  (forall t, In t (hard_terms G B stmts ++ enum_terms G B enums) -> bv_true sigma t = Some true) ->
  nth_error B id = Some b -> fb_rand b = true -> nth_error enums id = Some (Some vals) ->
  fw G id = 32 -> fsg G id = true -> Forall (fun v => in_type true 32 v = true) vals -> vals <> [] ->
  In (readback G B rho sigma id) vals.
Proof. exact solve_enum_sound. Qed.
Print Assumptions C01_enum_values_declared.

(* the values of a call are written rand set by rand set, each set from its own solver instance (Rand/Randset.v): the
   assignment a call ends with takes every field from the solution of the set that holds it, and satisfies every
   statement of the call as soon as every set's solution satisfies that set's statements *)
Theorem C01_values_come_from_the_fields_own_rand_set :
  forall (V : Type) stmts (envs : list (nat -> V)) dflt i r e f,
    nth_error (build stmts) i = Some r -> nth_error envs i = Some e -> In f (rs_fields r) ->
    assemble (build stmts) envs dflt f = e f.
Proof. exact assemble_agrees. Qed.
Print Assumptions C01_values_come_from_the_fields_own_rand_set.
Theorem C01_rand_set_solutions_satisfy_every_statement :
  forall (V : Type) (holds : (nat -> V) -> nat -> bool) stmts (envs : list (nat -> V)) dflt,
    (forall k refs e1 e2, nth_error stmts k = Some refs -> (forall f, In f refs -> e1 f = e2 f) -> holds e1 k = holds e2 k) ->
    length envs = length (build stmts) ->
    (forall i r e k, nth_error (build stmts) i = Some r -> nth_error envs i = Some e -> In k (rs_stmts r) -> holds e k = true) ->
    forall k, (k < length stmts)%nat -> holds (assemble (build stmts) envs dflt) k = true.
Proof. exact compositional_sound. Qed.
Print Assumptions C01_rand_set_solutions_satisfy_every_statement.
