(* C20 — solve_order decouples the earlier variable's distribution from the later one.  Property theorems only.
   PARTIAL (frequency): the distribution claim is proved as "the value produced is the drawn pattern"; the uniformity of the
   draw and the solver's choice when a pattern is infeasible are runtime behaviours observed by the check's histograms. *)
From Coq Require Import ZArith List Bool.
From PV Require Import Common.Bits Rand.BV Rand.Order Rand.OrderProofs Rand.OrderTotal Rand.Swizzle Rand.SwizzleProofs.
Import ListNotations.

(* solve_order(before, after) makes every after-field depend on every before-field, and keeps earlier declarations *)
Theorem C20_declared : forall d before after a b, In a after -> In b before -> In b (deps_of (add_order d before after) a).
Proof. exact add_order_in. Qed.
Print Assumptions C20_declared.
Theorem C20_declarations_kept : forall d a b x y, In y (deps_of d x) -> In y (deps_of (add_dep d a b) x).
Proof. exact add_dep_keeps. Qed.
Print Assumptions C20_declarations_kept.

(* the groups of a rand set are randomised one after the other: a field declared "before" another sits in a strictly
   earlier group (chains and lists included), no field is in two groups, only fields of the rand set appear *)
Theorem C20_order_respects : forall d fields gs a b i j,
  NoDup fields -> rand_order d fields = Some gs ->
  In b (deps_of d a) -> In a fields -> group_index gs a 0 = Some i -> group_index gs b 0 = Some j -> (j < i)%nat.
Proof. exact rand_order_respects. Qed.
Print Assumptions C20_order_respects.
Theorem C20_groups_disjoint : forall d fields gs, NoDup fields -> rand_order d fields = Some gs -> NoDup (concat gs).
Proof. exact rand_order_disjoint. Qed.
Print Assumptions C20_groups_disjoint.
Theorem C20_groups_within_randset : forall d fields gs x, rand_order d fields = Some gs -> In x (concat gs) -> In x fields.
Proof. exact rand_order_subset. Qed.
Print Assumptions C20_groups_within_randset.
(* no ordered field is dropped by the restriction to the rand set: the after-field of a declared pair always gets a group,
   and so does the before-field when it belongs to the rand set; hence the unconditional form of C20_order_respects *)
Theorem C20_ordered_fields_kept : forall d fields gs a b,
  rand_order d fields = Some gs -> In b (deps_of d a) -> In a fields ->
  In a (concat gs) /\ (In b fields -> In b (concat gs)).
Proof. exact rand_order_covers. Qed.
Print Assumptions C20_ordered_fields_kept.
Theorem C20_pair_separated : forall d fields gs a b,
  NoDup fields -> rand_order d fields = Some gs -> In b (deps_of d a) -> In a fields -> In b fields ->
  exists i j, group_index gs a 0 = Some i /\ group_index gs b 0 = Some j /\ (j < i)%nat.
Proof. exact rand_order_separates. Qed.
Print Assumptions C20_pair_separated.

(* the ordering is never lost: whenever the declared pairs are acyclic (some rank decreases along every declared pair) and
   an after-field belongs to the rand set, the level computation succeeds - it runs out of neither ready fields nor fuel *)
Theorem C20_acyclic_order_total : forall d fields,
  acyclic d -> filter (fun p => mem (fst p) fields) d <> [] -> exists gs, rand_order d fields = Some gs.
Proof. exact rand_order_total. Qed.
Print Assumptions C20_acyclic_order_total.
(* chains: whatever is ordered transitively (a before b, b before c - all in the rand set) is separated as well, and a
   declaration that orders a field before itself never yields groups *)
Theorem C20_chain_separated : forall d fields gs a b,
  NoDup fields -> rand_order d fields = Some gs -> reaches d fields a b ->
  exists i j, group_index gs a 0 = Some i /\ group_index gs b 0 = Some j /\ (j < i)%nat.
Proof. exact rand_order_chain. Qed.
Print Assumptions C20_chain_separated.
Theorem C20_cycle_no_order : forall d fields a, NoDup fields -> reaches d fields a a -> rand_order d fields = None.
Proof. exact rand_order_cycle_none. Qed.
Print Assumptions C20_cycle_no_order.
(* only the fields named by a declaration that reaches the rand set are grouped (the others are not swizzled in the ordered branch) *)
Theorem C20_only_named_grouped : forall d fields gs x,
  rand_order d fields = Some gs -> In x (concat gs) -> In x (items (filter (fun p => mem (fst p) fields) d)).
Proof. exact rand_order_only_named. Qed.
Print Assumptions C20_only_named_grouped.

Open Scope Z_scope.
(* the first-solved field: when the drawn pattern is a feasible value v of its range, every slice is kept (it is consistent with
   a full solution, whatever the later fields are) and the field ends up holding v.  Since the pattern is drawn uniformly from
   the range, every feasible value of a range that the feasible values fill is produced with probability 1 / |range|,
   independently of how many values of the later fields accompany it; a feasible value is never lost (no corner) *)
Theorem C20_first_var_gets_pattern : forall s id sg w lo hi v x,
  1 <= w -> in_type sg w lo = true -> in_type sg w hi = true -> lo <= v <= hi -> lo <= x <= hi ->
  wrapU w (s id) = wrapU w x ->
  (forall t, In t (swizzle_terms id w lo hi v) -> bv_true s t = Some true) -> x = v.
Proof. exact swizzle_pins_value. Qed.
Print Assumptions C20_first_var_gets_pattern.
Theorem C20_feasible_pattern_kept : forall s id sg w lo hi v,
  1 <= w -> in_type sg w lo = true -> in_type sg w hi = true -> lo <= v <= hi -> wrapU w (s id) = wrapU w v ->
  forall t, In t (swizzle_terms id w lo hi v) -> bv_true s t = Some true.
Proof. exact swizzle_self_consistent. Qed.
Print Assumptions C20_feasible_pattern_kept.

Example C20_example :
  rand_order (add_order (add_order [] [0%nat] [1%nat]) [1%nat] [2%nat]) [2%nat; 0%nat; 1%nat] = Some [[0%nat]; [1%nat]; [2%nat]].
Proof. vm_compute. reflexivity. Qed.
