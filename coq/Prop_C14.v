(* C14 — no legal value is starved: inferred value ranges over-approximate the solutions.  Property theorems only.
   PARTIAL: for fields constrained against constants (comparisons, membership) the inference is modelled as a whole
   (Rand/Bounds.v) and proved sound; for general programs what the library infers is judged per call by the enumeration
   oracle of the check; the remaining theorems cover the range-trimming primitives and the randomising bit pattern. *)
From Coq Require Import ZArith List Bool.
From PV Require Import Common.Bits Rand.BV Rand.Swizzle Rand.SwizzleProofs Rand.Bounds Rand.BoundsProofs.
Import ListNotations.
Open Scope Z_scope.

(* bounds inference of a field against constants - comparisons applied round after round until stable, membership lists
   sorted and merged, starting from the range of the type - never cuts off a value that satisfies all the constraints *)
Theorem C14_inference_keeps_solutions : forall sg w ks v,
  1 <= w -> dom_in (type_dom sg w) v = true -> Forall wf_con ks -> forallb (sat1 v) ks = true ->
  dom_in (infer_fix (type_dom sg w) ks) v = true.
Proof. exact infer_fix_type_sound. Qed.
Print Assumptions C14_inference_keeps_solutions.
(* a field no constraint mentions keeps the whole range of its type *)
Theorem C14_unmentioned_whole_type : forall ty, infer_fix ty [] = ty.
Proof. exact infer_fix_no_constraint. Qed.
Print Assumptions C14_unmentioned_whole_type.
(* upper bounds and membership are exact: what remains satisfies them (lower bounds are not: see infer_min_not_exact) *)
Theorem C14_inference_max_in_exact : forall ty ks v,
  sorted_dom ty = true -> Forall max_in_con ks -> dom_in (infer_fix ty ks) v = true ->
  forallb (sat1 v) ks = true /\ dom_in ty v = true.
Proof. exact infer_fix_max_in_exact. Qed.
Print Assumptions C14_inference_max_in_exact.

(* range trimming never removes a value that satisfies the bound it trims with *)
Theorem C14_propagate_max_sound : forall d max_v v,
  dom_in d v = true -> v <= max_v -> dom_in (propagate_max d max_v) v = true.
Proof. exact propagate_max_sound. Qed.
Print Assumptions C14_propagate_max_sound.
Theorem C14_propagate_min_sound : forall d min_v v,
  sorted_dom d = true -> dom_in d v = true -> min_v <= v -> dom_in (propagate_min d min_v) v = true.
Proof. exact propagate_min_sound. Qed.
Print Assumptions C14_propagate_min_sound.
Theorem C14_intersect_sound : forall a b v,
  sorted_dom a = true -> sorted_dom b = true -> dom_in a v = true -> dom_in b v = true -> dom_in (intersect_dom a b) v = true.
Proof. exact intersect_dom_sound. Qed.
Print Assumptions C14_intersect_sound.

(* the bit pattern: its slices cover every pinned bit exactly once ... *)
Theorem C14_slices_are_low_bits : forall d x pat, 0 <= d ->
  (forall p, In p (intervals d) -> slice_val x (fst p) (snd p) = slice_val pat (fst p) (snd p)) <-> x mod 2 ^ d = pat mod 2 ^ d.
Proof. exact slices_lowbits. Qed.
Print Assumptions C14_slices_are_low_bits.
(* ... within the chosen range the pinned bits determine the value (sign bit included for ranges with negative values) ... *)
Theorem C14_lowbits_injective : forall sg w lo hi v1 v2,
  1 <= w -> in_type sg w lo = true -> in_type sg w hi = true -> lo <= v1 <= hi -> lo <= v2 <= hi ->
  v1 mod 2 ^ d_width lo hi w = v2 mod 2 ^ d_width lo hi w -> v1 = v2.
Proof. exact lowbits_injective. Qed.
Print Assumptions C14_lowbits_injective.
(* ... a pattern equal to a value v of the range never conflicts with v: if v is feasible, every slice constraint is satisfiable
   together with the hard constraints, in whatever order the slices are tried, so all of them are kept ... *)
Theorem C14_pattern_consistent_with_value : forall s id sg w lo hi v,
  1 <= w -> in_type sg w lo = true -> in_type sg w hi = true -> lo <= v <= hi -> wrapU w (s id) = wrapU w v ->
  forall t, In t (swizzle_terms id w lo hi v) -> bv_true s t = Some true.
Proof. exact swizzle_self_consistent. Qed.
Print Assumptions C14_pattern_consistent_with_value.
(* ... and once they are kept the field holds v (the inferred range contains every feasible value, so the solution lies in it):
   every value of the range that is feasible is produced by the draw pattern = v, i.e. has non-zero probability *)
Theorem C14_reachable_partial : forall s id sg w lo hi v x,
  1 <= w -> in_type sg w lo = true -> in_type sg w hi = true -> lo <= v <= hi -> lo <= x <= hi ->
  wrapU w (s id) = wrapU w x ->
  (forall t, In t (swizzle_terms id w lo hi v) -> bv_true s t = Some true) -> x = v.
Proof. exact swizzle_pins_value. Qed.
Print Assumptions C14_reachable_partial.

(* non-vacuity, and the repaired defect: -5 and 3 no longer share a pattern in [-5, 5] on an 8-bit signed field *)
Example C14_example : d_width (-5) 5 8 = 4 /\ (-5) mod 2 ^ 4 <> 3 mod 2 ^ 4 /\ (-5) mod 2 ^ 3 = 3 mod 2 ^ 3.
Proof. vm_compute. repeat split; congruence. Qed.
