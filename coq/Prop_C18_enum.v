(* C18 (enum part) — enum fields hold and return declared enumerators (hand-written model Val/Enum.v). *)
From Coq Require Import ZArith List Bool.
From PV Require Import Val.Enum Val.EnumProofs.
Import ListNotations.
Open Scope Z_scope.

Theorem C18_enum_roundtrip : forall vals k v, NoDup vals -> enum_set vals k = Some v -> enum_get vals v = Some k.
Proof. exact enum_roundtrip. Qed.
Print Assumptions C18_enum_roundtrip.
Theorem C18_enum_stored_declared : forall vals k v, enum_set vals k = Some v -> In v vals.
Proof. exact enum_stored_declared. Qed.
Print Assumptions C18_enum_stored_declared.
Theorem C18_enum_get_declared : forall vals v k, enum_get vals v = Some k -> nth_error vals k = Some v.
Proof. exact enum_get_declared. Qed.
Print Assumptions C18_enum_get_declared.
