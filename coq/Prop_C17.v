(* C17 — pre_randomize / post_randomize run once each, on the top object and every random sub-object. *)
From Coq Require Import ZArith List Bool.
From PV Require Import Rand.Expr Rand.World Rand.WorldProofs.
Import ListNotations.

(* the callbacks go to exactly the composites that are random in the call, in pre-order *)
Theorem C17_callbacks_spec : forall n, callbacks true 0 n = map fst (filter snd (spec_objs true true n)).
Proof. exact callbacks_spec. Qed.
Print Assumptions C17_callbacks_spec.
(* each exactly once (objects of a tree are distinct) *)
Theorem C17_once : forall n, NoDup (all_oids n) -> NoDup (callbacks true 0 n).
Proof. exact callbacks_nodup. Qed.
Print Assumptions C17_once.
(* neither runs for a non-random sub-object or anything below it *)
Theorem C17_none_below_nonrandom : forall n level,
  (forall id b, In (id, b) (leaf_flags false level n) -> b = false) /\
  active_stmts false level n = [] /\ callbacks false level n = [].
Proof. exact nothing_below_nonrandom. Qed.
Print Assumptions C17_none_below_nonrandom.
Theorem C17_all_objects_listed : forall anc r n, map fst (spec_objs anc r n) = all_oids n.
Proof. exact spec_objs_oids. Qed.
Print Assumptions C17_all_objects_listed.
