#!/bin/bash
# Build the framework from files on disk only (offline): the Coq development (full .vo build).
set -e
cd "$(dirname "$0")"
mkdir -p run evidence replays
/venv/bin/python -B harness/main.py lint
cd coq
coq_makefile -f _CoqProject -o Makefile > /dev/null
timeout 3000 make -j"$(nproc)" 2>&1 | tail -5
echo "setup done"
